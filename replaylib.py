"""witness search (bounded, no contracts) + native replay under ASan/UBSan (DESIGN 4.7)"""
import os, re, json, subprocess, shutil, time


def _sh(cmd, timeout, cwd=None):
    try:
        p = subprocess.run(cmd, capture_output=True, text=True, timeout=timeout, cwd=cwd)
        return p.returncode, p.stdout, p.stderr
    except subprocess.TimeoutExpired:
        return -999, "", "timeout"


def native_build(ROOT, REPO, bdir, g, flags, rp):
    exe = os.path.join(bdir, "replay.exe")
    fl = [f for f in flags if f != "-DVERIF_CBMC"]
    cmd = ["clang", "-g", "-O0", "-w", "-fsanitize=address,undefined", "-fno-sanitize-recover=all"] + fl + \
          ["-DVERIF_REPLAY", "-DWIT_ENTRY=" + rp["entry"]] + ["-D" + d for d in g.get("defs", [])] + \
          ["-D" + d for d in rp.get("defs", [])] + \
          [os.path.join(ROOT, "harness", g["harness"]), "-o", exe] + rp.get("libs", [])
    rc, o, e = _sh(cmd, 300)
    return (exe if rc == 0 else None), e


def native_run(exe, inputs_path):
    env = dict(os.environ, ASAN_OPTIONS="detect_leaks=0:abort_on_error=0", UBSAN_OPTIONS="print_stacktrace=1")
    try:
        p = subprocess.run([exe, inputs_path], capture_output=True, text=True, timeout=60, env=env)
    except subprocess.TimeoutExpired:
        return {"rc": -999, "verdict": "timeout", "output": ""}
    out = (p.stdout + p.stderr)
    if "REPLAY-SKIP" in out:
        v = "skip"
    elif p.returncode == 77 or "REPLAY-FAIL" in out:
        v = "clause-failed"
    elif "runtime error" in out or "AddressSanitizer" in out:
        v = "sanitizer"
    elif p.returncode == 0 and "REPLAY-PASS" in out:
        v = "pass"
    else:
        v = "other"
    return {"rc": p.returncode, "verdict": v, "output": out[-3000:]}


def extract_inputs(trace, entry):
    vals = {}
    for st in trace:
        if st.get("stepType") != "assignment":
            continue
        if st.get("sourceLocation", {}).get("function") != entry:
            continue
        lhs = st.get("lhs", "")
        v = st.get("value", {})
        data = v.get("data")
        if data is None:
            continue
        m = re.match(r"^([A-Za-z_][A-Za-z_0-9]*)(?:\[(\d+)l?\])?$", lhs)
        if not m:
            continue
        try:
            if isinstance(data, str) and data.startswith("'"):
                num = v.get("binary") and int(v["binary"], 2)
            else:
                num = int(re.sub(r"[uUlL]+$", "", str(data)))
        except Exception:
            b = v.get("binary")
            if not b:
                continue
            num = int(b, 2)
        name, idx = m.group(1), m.group(2)
        if idx is None:
            vals[name] = [num]
        else:
            vals.setdefault(name, [])
            i = int(idx)
            while len(vals[name]) <= i:
                vals[name].append(0)
            vals[name][i] = num
    return vals


_SEARCH = {}


def replay(ROOT, REPO, BUILD, g, r, x, flags):
    key = (g["name"], REPO)
    if key not in _SEARCH:
        _SEARCH[key] = search(ROOT, REPO, BUILD, g, flags)
    st = _SEARCH[key]
    if "why" in st:
        return {"reproduced": False, "entry": g["replay"]["entry"], "why": st["why"]}
    return match(ROOT, REPO, g, x, st)


def search(ROOT, REPO, BUILD, g, flags):
    rp = g["replay"]
    bdir = os.path.join(BUILD, g["name"] + ".replay")
    shutil.rmtree(bdir, ignore_errors=True)
    os.makedirs(bdir)
    note = {"reproduced": False, "entry": rp["entry"]}
    fl = list(flags)
    if g.get("gen") == "base64u":
        fl.append("-I" + os.path.join(BUILD, g["name"], "gen"))
    # optional enumeration of a compile-time constant (e.g. the datagram length): constant-size
    # objects keep the bounded search cheap; variants run in parallel
    variants = [[]]
    if rp.get("enum"):
        k, vals = list(rp["enum"].items())[0]
        variants = [["%s=%s" % (k, v)] for v in vals]

    def one(vdefs):
        tag = "_".join(vdefs).replace("=", "") or "w"
        gb = os.path.join(bdir, tag + ".gb")
        cmd = ["goto-cc"] + fl + ["-DVERIF_WITNESS"] + ["-D" + d for d in g.get("defs", [])] + \
              ["-D" + d for d in rp.get("defs", [])] + ["-D" + d for d in vdefs] + ["--function", rp["entry"],
              os.path.join(ROOT, "harness", g["harness"]), "-o", gb]
        rc, o, e = _sh(cmd, 120)
        if rc != 0:
            return "witness build failed: " + e[-400:], None
        cmd = ["cbmc", gb, "--json-ui", "--trace", "--no-malloc-may-fail", "--drop-unused-functions",
               "--bounds-check", "--pointer-check", "--div-by-zero-check",
               "--undefined-shift-check", "--signed-overflow-check", "--unwind", str(rp.get("unwind", 12)),
               "--object-bits", "12", "--sat-solver", "cadical"]
        rc, o, e = _sh(["sh", "-c", "ulimit -s unlimited; exec \"$@\"", "sh"] + cmd, rp.get("timeout", 240))
        if rc == -999:
            return "witness search timed out", None
        try:
            js = json.loads(o)
        except Exception:
            return "witness search output unparsable", None
        for it in js:
            if "result" in it:
                return None, it["result"]
        return "witness search gave no result", None

    from concurrent.futures import ThreadPoolExecutor
    with ThreadPoolExecutor(max_workers=8) as ex:
        outs = list(ex.map(one, variants))
    results = []
    whys = []
    for why, res in outs:
        if res:
            results += res
        elif why:
            whys.append(why)
    if not results:
        note["why"] = "; ".join(sorted(set(whys))) or "witness search gave no result"
        return note
    cands = [p for p in results if p["status"] == "FAILURE" and p.get("trace") and
             p["property"].split(".")[-2:-1] != ["unwind"]]
    if not cands:
        note["why"] = "bounded witness search (unwind %s) found no failing input" % rp.get("unwind", 12)
        return note
    exe, err = native_build(ROOT, REPO, bdir, g, fl, rp)
    if not exe:
        note["why"] = "native replay build failed: " + err[-400:]
        return note
    return {"cands": cands, "exe": exe, "bdir": bdir, "native": {}}


def match(ROOT, REPO, g, x, st):
    rp = g["replay"]
    note = {"reproduced": False, "entry": rp["entry"]}
    results = st["cands"]
    exe, bdir = st["exe"], st["bdir"]

    # candidates: failing properties of the same kind, best match first
    def score(p):
        sl = p.get("sourceLocation", {})
        s = 0
        if p.get("description", "") == x["desc"]:
            s += 4
        if sl.get("function") == x["function"]:
            s += 2
        cls = p["property"].split(".")[-2] if "." in p["property"] else ""
        if cls == x["cls"]:
            s += 1
        if "WIT_CHECK" in p.get("description", "") and x["cls"] in ("postcondition", "loop_invariant_step", "loop_invariant_base", "assertion", "precondition", "assigns"):
            s += 3
        return s
    cands = sorted(results, key=score, reverse=True)
    tried = []
    for p in cands[:4]:
        vals = extract_inputs(p["trace"], rp["entry"])
        if p["property"] not in st["native"]:
            ipath = os.path.join(bdir, "inputs.txt")
            with open(ipath, "w") as f:
                for k, v in vals.items():
                    f.write(k + " " + " ".join(str(t) for t in v) + "\n")
            st["native"][p["property"]] = native_run(exe, ipath)
        res = st["native"][p["property"]]
        tried.append({"witness_property": p["property"], "witness_desc": p.get("description", "")[:200], "native": res["verdict"]})
        if res["verdict"] in ("clause-failed", "sanitizer"):
            note.update({"reproduced": True, "inputs": vals, "native_verdict": res["verdict"],
                         "native_output": res["output"], "witness_property": p["property"],
                         "witness_desc": p.get("description", ""),
                         "how": "clang -fsanitize=address,undefined -DVERIF_REPLAY harness/%s (entry %s) on these inputs against the real source" % (g["harness"], rp["entry"]),
                         "group": g["name"]})
            return note
    note["why"] = "witness found by CBMC did not reproduce natively"
    note["tried"] = tried
    return note


def rerun(ROOT, REPO, BUILD, path, flags):
    import importlib
    js = json.load(open(path))
    rep = js.get("replay", {})
    print("obligation:", js.get("obligation"), "-", js.get("description"))
    if not rep.get("reproduced"):
        print("no failing input was found for this obligation; verifier output is in the file")
        return 0
    import groups as GR
    g = [g for g in GR.GROUPS if g["name"] == js["group"]][0]
    bdir = os.path.join(BUILD, g["name"] + ".replay")
    os.makedirs(bdir, exist_ok=True)
    fl = list(flags)
    if g.get("gen") == "base64u":
        import subprocess as sp
        d = os.path.join(bdir, "gen")
        os.makedirs(d, exist_ok=True)
        for f in ("Makefile", "base64.c", "osflags"):
            shutil.copy(os.path.join(REPO, "src", f), d)
        sp.run(["make", "-s", "-C", d, "base64u.c", "TARGETOS=Linux"])
        fl.append("-I" + d)
    exe, err = native_build(ROOT, REPO, bdir, g, fl, g["replay"])
    if not exe:
        print("build failed", err[-500:])
        return 2
    ipath = os.path.join(bdir, "inputs.txt")
    with open(ipath, "w") as f:
        for k, v in rep["inputs"].items():
            f.write(k + " " + " ".join(str(t) for t in v) + "\n")
    res = native_run(exe, ipath)
    print(res["verdict"])
    print(res["output"])
    return 1 if res["verdict"] in ("clause-failed", "sanitizer") else 0
