/* constants used by loops/putname.inv */
#ifndef NMAX
#define NMAX 255
#endif
