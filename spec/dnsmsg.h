/* RFC 1035 message layout vocabulary (section 4.1), written from the RFC.  Pure expression macros: used by
 * the harness (compiled) and by loop invariants (expanded with gcc -E). */
#ifndef VERIF_SPEC_DNSMSG_H
#define VERIF_SPEC_DNSMSG_H

#define U8(p, i) ((unsigned)((const unsigned char *)(p))[i])
#define U16(p, i) ((U8(p, i) << 8) | U8(p, (i) + 1))
#define U32(p, i) (((unsigned long)U16(p, i) << 16) | U16(p, (i) + 2))
#define HDR_ID(b) U16(b, 0)
#define HDR_QR(b) (U8(b, 2) >> 7)
#define HDR_OPCODE(b) ((U8(b, 2) >> 3) & 15)
#define HDR_AA(b) ((U8(b, 2) >> 2) & 1)
#define HDR_TC(b) ((U8(b, 2) >> 1) & 1)
#define HDR_RD(b) (U8(b, 2) & 1)
#define HDR_RA_Z_RCODE(b) U8(b, 3)
#define HDR_QD(b) U16(b, 4)
#define HDR_AN(b) U16(b, 6)
#define HDR_NS(b) U16(b, 8)
#define HDR_AR(b) U16(b, 10)


/* generic forms over an arbitrary message pointer b and query pointer q */
#define M_ANSWER_HDR_OK(b, q) (HDR_ID(b) == (q)->id && HDR_QR(b) == 1 && HDR_OPCODE(b) == 0 && HDR_AA(b) == 1 && HDR_TC(b) == 0 && HDR_RD(b) == 0 && HDR_RA_Z_RCODE(b) == 0 && \
	HDR_QD(b) == 1 && HDR_NS(b) == 0 && HDR_AR(b) == 0)
/* one resource record header at offset a: pointer to the question name at offset 12, type, class IN, TTL 0 */
#define M_RR_HDR_OK(b, a, type) (U16(b, a) == 0xc00c && U16(b, (a) + 2) == (type) && U16(b, (a) + 4) == 1 && U16(b, (a) + 6) == 0 && U16(b, (a) + 8) == 0)
/* MX / SRV record for list position r (0-based) whose name occupies nadv bytes: 10-byte fixed part, RDLENGTH,
 * preference 10*(r+1), for SRV weight 10 and port 5060 (RFC 2782), then the name */
#define IS_SRV(type) ((type) == 33)
#define LIST_FIX(type) (IS_SRV(type) ? 18 : 14)
#define LIST_REC_OK(b, ro, type, r, nadv) (M_RR_HDR_OK(b, ro, type) && U16(b, (ro) + 10) == (unsigned)(LIST_FIX(type) - 12) + (unsigned)(nadv) && U16(b, (ro) + 12) == (unsigned)(10 * ((r) + 1)) && \
	(!IS_SRV(type) || (U16(b, (ro) + 14) == 10 && U16(b, (ro) + 16) == 5060)))
#endif
