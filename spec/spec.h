/* Spec vocabulary (DESIGN 4.3). Written from the property statements and
 * doc/proto_00000502.txt, not from the code.  Pure expression macros only, so that the
 * same text can be used in function contracts (compiled by goto-cc) and in loop
 * contracts (expanded by gcc -E, because the loop-contract parser takes no macros). */
#ifndef VERIF_SPEC_H
#define VERIF_SPEC_H

/* ---- bit-stream codecs (C07) -------------------------------------------------------
 * A byte string d[0..n) is read as one big-endian bit stream, zero padded; character j
 * of its base-2^b encoding is ALPHABET[ bits b*j .. b*j+b-1 ].  One formula for every
 * position (the implementation instead has a hand-unrolled case per position).      */
#define SPEC_UL(x) ((unsigned long)(x))
#define SPEC_BYTE(d, n, i) ((SPEC_UL(i) < SPEC_UL(n)) ? (unsigned)((const unsigned char *)(d))[(i)] : 0u)
#define SPEC_W16(d, n, i) ((SPEC_BYTE(d, n, i) << 8) | SPEC_BYTE(d, n, (i) + 1))
#define SPEC_VAL(b, d, n, j) \
	((SPEC_W16(d, n, (SPEC_UL(j) * (b)) / 8) >> (16 - (b) - ((SPEC_UL(j) * (b)) % 8))) & ((1u << (b)) - 1u))
/* number of characters that carry k bytes */
#define SPEC_ENCLEN(b, k) ((8 * SPEC_UL(k) + (b) - 1) / (b))
/* number of whole bytes carried by n characters */
#define SPEC_DECLEN(b, n) ((SPEC_UL(n) * (b)) / 8)

/* decoding: byte g of the stream made of the b-bit values REV(s[j]) */
#define SPEC_J0(b, g) ((8 * SPEC_UL(g)) / (b))
#define SPEC_OFF(b, g) ((8 * SPEC_UL(g)) % (b))
#define SPEC_NEED3(b, g) (SPEC_OFF(b, g) + 8 > 2 * (b))
#define SPEC_DEC(b, REV, s, g) \
	(((((unsigned long)REV((s)[SPEC_J0(b, g)]) << (2 * (b))) | \
	   ((unsigned long)REV((s)[SPEC_J0(b, g) + 1]) << (b)) | \
	   (SPEC_NEED3(b, g) ? (unsigned long)REV((s)[SPEC_J0(b, g) + 2]) : 0ul)) \
	  >> (3 * (b) - 8 - SPEC_OFF(b, g))) & 0xfful)

/* the four alphabets, as documented (property C07 / README / proto doc) */
#define SPEC_A32_LIT "abcdefghijklmnopqrstuvwxyz012345"
#define SPEC_A64_LIT "abcdefghijklmnopqrstuvwxyzABCDEFGHIJKLMNOPQRSTUVWXYZ-0123456789+"
#define SPEC_A64U_LIT "abcdefghijklmnopqrstuvwxyzABCDEFGHIJKLMNOPQRSTUVWXYZ-0123456789_"
/* Base128: a-zA-Z0-9 then bytes 0xBC..0xFD */
#define SPEC_A128(v) ((v) < 26 ? 'a' + (v) : (v) < 52 ? 'A' + ((v) - 26) : (v) < 62 ? '0' + ((v) - 52) : 0xBC + ((v) - 62))

/* reverse maps as arithmetic on the character (c is taken as unsigned char) */
#define SPEC_UC(c) ((unsigned)(unsigned char)(c))
#define SPEC_IN(c, lo, hi) (SPEC_UC(c) >= (unsigned)(lo) && SPEC_UC(c) <= (unsigned)(hi))
#define SPEC_REV32(c) (SPEC_IN(c, 'a', 'z') ? SPEC_UC(c) - 'a' : SPEC_IN(c, 'A', 'Z') ? SPEC_UC(c) - 'A' : \
		       SPEC_IN(c, '0', '5') ? 26u + SPEC_UC(c) - '0' : 0u)
#define SPEC_REV64X(c, last) (SPEC_IN(c, 'a', 'z') ? SPEC_UC(c) - 'a' : SPEC_IN(c, 'A', 'Z') ? 26u + SPEC_UC(c) - 'A' : \
		       SPEC_UC(c) == '-' ? 52u : SPEC_IN(c, '0', '9') ? 53u + SPEC_UC(c) - '0' : \
		       SPEC_UC(c) == (last) ? 63u : 0u)
#define SPEC_REV64(c) SPEC_REV64X(c, '+')
#define SPEC_REV64U(c) SPEC_REV64X(c, '_')
#define SPEC_REV128(c) (SPEC_IN(c, 'a', 'z') ? SPEC_UC(c) - 'a' : SPEC_IN(c, 'A', 'Z') ? 26u + SPEC_UC(c) - 'A' : \
		       SPEC_IN(c, '0', '9') ? 52u + SPEC_UC(c) - '0' : SPEC_IN(c, 0xBC, 0xFD) ? 62u + SPEC_UC(c) - 0xBC : 0u)

#define SPEC_LC(c) ((SPEC_UC(c) >= 'A' && SPEC_UC(c) <= 'Z') ? SPEC_UC(c) + 32u : SPEC_UC(c))

#define SPEC_MIN(a, b) ((a) < (b) ? (a) : (b))

#endif
