/* MD5 of a single-block message (length <= 55), written from RFC 1321 section 3:
 * padding 0x80, 64-bit little-endian bit length, constants T[i] = floor(2^32 * abs(sin(i+1)))
 * as printed in the RFC, generic round formula with the index functions g(i) and the
 * per-round shift amounts.  Independent of src/md5.c (which is 64 unrolled macro steps). */
#ifndef VERIF_SPEC_MD5_H
#define VERIF_SPEC_MD5_H
#include <stdint.h>
static const uint32_t SPEC_MD5_T[64] = {
	0xd76aa478, 0xe8c7b756, 0x242070db, 0xc1bdceee, 0xf57c0faf, 0x4787c62a, 0xa8304613, 0xfd469501,
	0x698098d8, 0x8b44f7af, 0xffff5bb1, 0x895cd7be, 0x6b901122, 0xfd987193, 0xa679438e, 0x49b40821,
	0xf61e2562, 0xc040b340, 0x265e5a51, 0xe9b6c7aa, 0xd62f105d, 0x02441453, 0xd8a1e681, 0xe7d3fbc8,
	0x21e1cde6, 0xc33707d6, 0xf4d50d87, 0x455a14ed, 0xa9e3e905, 0xfcefa3f8, 0x676f02d9, 0x8d2a4c8a,
	0xfffa3942, 0x8771f681, 0x6d9d6122, 0xfde5380c, 0xa4beea44, 0x4bdecfa9, 0xf6bb4b60, 0xbebfbc70,
	0x289b7ec6, 0xeaa127fa, 0xd4ef3085, 0x04881d05, 0xd9d4d039, 0xe6db99e5, 0x1fa27cf8, 0xc4ac5665,
	0xf4292244, 0x432aff97, 0xab9423a7, 0xfc93a039, 0x655b59c3, 0x8f0ccc92, 0xffeff47d, 0x85845dd1,
	0x6fa87e4f, 0xfe2ce6e0, 0xa3014314, 0x4e0811a1, 0xf7537e82, 0xbd3af235, 0x2ad7d2bb, 0xeb86d391 };
static const unsigned SPEC_MD5_S[4][4] = { {7, 12, 17, 22}, {5, 9, 14, 20}, {4, 11, 16, 23}, {6, 10, 15, 21} };
static uint32_t spec_rotl(uint32_t x, unsigned n) { return (x << n) | (x >> (32 - n)); }

static void spec_md5_1block(const unsigned char *msg, unsigned len, unsigned char out[16])
{
	unsigned char blk[64];
	uint32_t X[16], a = 0x67452301, b = 0xefcdab89, c = 0x98badcfe, d = 0x10325476, A, B, C, D;
	unsigned i;
	for (i = 0; i < 64; i++)
		blk[i] = i < len ? msg[i] : (i == len ? 0x80 : 0);
	blk[56] = (unsigned char)((len * 8) & 0xff);
	blk[57] = (unsigned char)(((len * 8) >> 8) & 0xff);
	for (i = 0; i < 16; i++)
		X[i] = (uint32_t)blk[4 * i] | ((uint32_t)blk[4 * i + 1] << 8) | ((uint32_t)blk[4 * i + 2] << 16) | ((uint32_t)blk[4 * i + 3] << 24);
	A = a; B = b; C = c; D = d;
	for (i = 0; i < 64; i++) {
		uint32_t f, t;
		unsigned g, r = i / 16;
		if (r == 0) { f = (B & C) | (~B & D); g = i; }
		else if (r == 1) { f = (B & D) | (C & ~D); g = (5 * i + 1) % 16; }
		else if (r == 2) { f = B ^ C ^ D; g = (3 * i + 5) % 16; }
		else { f = C ^ (B | ~D); g = (7 * i) % 16; }
		t = D; D = C; C = B;
		B = B + spec_rotl(A + f + X[g] + SPEC_MD5_T[i], SPEC_MD5_S[r][i % 4]);
		A = t;
	}
	a += A; b += B; c += C; d += D;
	for (i = 0; i < 4; i++) {
		out[i] = (unsigned char)(a >> (8 * i)); out[4 + i] = (unsigned char)(b >> (8 * i));
		out[8 + i] = (unsigned char)(c >> (8 * i)); out[12 + i] = (unsigned char)(d >> (8 * i));
	}
}
#endif
