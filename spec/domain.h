/* C17 reference semantics, written from the property statement (not from common.c):
 * executable spec functions over (string, length); used as the oracle of an equivalence check. */
#ifndef VERIF_SPEC_DOMAIN_H
#define VERIF_SPEC_DOMAIN_H
#include "spec/spec.h"

static int spec_lc(int c) { return (c >= 'A' && c <= 'Z') ? c + 32 : c; }

/* accepted exactly when: 3..128 characters of letters, digits, '-' and '.', at least two
 * non-empty labels of at most 63 characters; with allow_wildcard the first label may be "*" */
static int spec_topdomain_ok(const char *s, int n, int allow_wildcard)
{
	int i, lablen = 0, labels = 0;
	if (n < 3 || n > 128)
		return 0;
	for (i = 0; i <= n; i++) {
		int c = (i < n) ? (unsigned char)s[i] : '.';   /* virtual terminating dot */
		if (c == '.') {
			if (lablen == 0 || lablen > 63)
				return 0;                          /* empty or over-long label */
			labels++;
			lablen = 0;
		} else {
			int ok = (c >= 'a' && c <= 'z') || (c >= 'A' && c <= 'Z') || (c >= '0' && c <= '9') || c == '-';
			if (!ok && !(allow_wildcard && c == '*' && i == 0 && n > 1 && s[1] == '.'))
				return 0;
			lablen++;
		}
	}
	return labels >= 2;
}

/* returns the data length (offset where the matched domain - or, for a wildcard domain, the
 * label matched by the star - begins) or -1 when the name is not under the domain */
static int spec_match(const char *q, int ql, const char *t, int tl)
{
	int wild = (tl >= 2 && t[0] == '*' && t[1] == '.');
	const char *rest = wild ? t + 1 : t;           /* ".rest" for wildcard domains */
	int rl = wild ? tl - 1 : tl;
	int i, start;
	if (tl < 3 || ql < tl)
		return -1;
	start = ql - rl;                               /* where the literal part must begin */
	for (i = 0; i < rl; i++)
		if (spec_lc((unsigned char)q[start + i]) != spec_lc((unsigned char)rest[i]))
			return -1;
	if (!wild) {
		if (start != 0 && q[start - 1] != '.')
			return -1;                             /* not at a label boundary */
		return start;
	}
	/* wildcard: exactly one non-empty star-free label in front of ".rest" */
	i = start;                                     /* q[start] == '.' */
	if (i == 0 || q[i - 1] == '.')
		return -1;                                 /* empty label */
	while (i > 0 && q[i - 1] != '.') {
		if (q[i - 1] == '*')
			return -1;
		i--;
	}
	return i;
}
#endif
