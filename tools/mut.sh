#!/bin/sh
# tools/mut.sh <name> <file> <sed-expr> <PROP>... : run checks against a mutated scratch worktree
# (never touches /repo's working tree).  VERIF_MUT_TESTS=1 also runs the repo's test suite.
name=$1; file=$2; expr=$3; shift 3
wt=/tmp/wt_$name
git -C /repo worktree remove --force $wt 2>/dev/null
git -C /repo worktree add -q --detach $wt HEAD || exit 3
sed -i "$expr" $wt/$file
if git -C $wt diff --quiet; then echo "MUTANT $name: sed did not change anything"; git -C /repo worktree remove --force $wt; exit 3; fi
git -C $wt diff | grep '^[+-][^+-]'
if [ -n "$VERIF_MUT_TESTS" ]; then (cd $wt && make -s test 2>&1 | tail -1); fi
for p in "$@"; do
  VERIF_REPO=$wt VERIF_BUILD=/tmp/wtb_$name VERIF_EVIDENCE=/tmp/wtb_$name/ev VERIF_REPLAYDIR=/tmp/wtb_$name/replay /verif/vc check $p 2>&1 | grep -E "VIOLATION|UNDECIDED|KNOWN|tier=" | sed "s/^/[$name] /"
done
git -C /repo worktree remove --force $wt; rm -rf /tmp/wtb_$name
# evidence files were rewritten by the mutant run; the caller should re-run the real check
