#!/bin/sh
# tools/seed_matrix2.sh [seed-id ...]: run every seeded change against the check of the property it breaks, in ONE scratch
# worktree at a fixed path with ONE build directory, so that the verdict cache (keyed by the goto binary, which embeds source
# paths) is shared between seeds: only the obligation groups whose program text changed are re-verified.
# Never touches /repo's working tree.  Output: one block per seed on stdout.
V=$(cd "$(dirname "$0")/.." && pwd)
wt=/tmp/wt_seedmx; b=/tmp/wtb_seedmx
ids="$@"
[ -z "$ids" ] && ids=$(ls $V/seeded)
git -C /repo worktree remove --force $wt 2>/dev/null
git -C /repo worktree add -q --detach $wt HEAD || exit 3
mkdir -p $b
for id in $ids; do
  p=$(python3 -c "import json;print(json.load(open('$V/seeded/$id/meta.json'))['property'])")
  extra=$(python3 -c "import json;print(' '.join(json.load(open('$V/seeded/$id/meta.json')).get('also_run',[])))")
  echo "=== $id ($p $extra)"
  git -C $wt checkout -q -- . ; git -C $wt clean -fdq
  git -C $wt apply $V/seeded/$id/patch.diff || { echo "[$id] patch does not apply"; continue; }
  for q in $p $extra; do
    VERIF_REPO=$wt VERIF_BUILD=$b VERIF_EVIDENCE=$b/ev VERIF_REPLAYDIR=$b/replay $V/vc check $q 2>&1 | grep -E "VIOLATION|UNDECIDED|KNOWN|tier=|replayed" | cut -c1-260 | sed "s/^/[$id] /"
  done
done
git -C /repo worktree remove --force $wt; rm -rf $b
