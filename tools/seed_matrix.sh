#!/bin/sh
# tools/seed_matrix.sh [seed-id ...] : run every seeded change against the check of the property it breaks
# (plus the safety properties where the change is a memory-safety one); output: build/seed_matrix.log
cd /verif
ids="$@"
[ -z "$ids" ] && ids=$(ls seeded)
for id in $ids; do
  p=$(python3 -c "import json;print(json.load(open('seeded/$id/meta.json'))['property'])")
  extra=$(python3 -c "import json;print(' '.join(json.load(open('seeded/$id/meta.json')).get('also_run',[])))")
  echo "=== $id ($p $extra)"
  sh tools/run_seed.sh $id $p $extra 2>&1 | grep -v "^WARNING"
done
