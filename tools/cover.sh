#!/bin/sh
# tools/cover.sh <group> <function> [unwind]: which source lines of <function> are reached by the harness of <group>?
# (path-level vacuity audit: a postcondition proved on a harness that never reaches a branch says nothing about that branch)
# needs build/<group>/b.gb from `./vc group <group>`; prints the UNREACHED line ranges of the function.
g=$1; fn=$2; uw=${3:-33}
cd /verif/build/$g || exit 2
ulimit -s unlimited
timeout 1800 cbmc b.gb --cover location --unwind $uw --object-bits 12 --no-array-field-sensitivity --drop-unused-functions --json-ui > cover.json 2>/dev/null
python3 - "$fn" <<'PY'
import json,sys,re
fn=sys.argv[1]
js=json.load(open('cover.json'))
goals=[]
for it in js:
    if isinstance(it,dict) and 'goals' in it: goals=it['goals']
tot=un=0
for gl in goals:
    d=gl.get('description','')
    sl=gl.get('sourceLocation',{})
    if sl.get('function')!=fn: continue
    tot+=1
    if gl.get('status')!='satisfied':
        un+=1
        m=re.search(r'lines ([^)]*)\)',d)
        print('UNREACHED', sl.get('file','').split('/')[-1], sl.get('line'), (m.group(1)[-80:] if m else d[:80]))
print('blocks of %s: %d, unreached: %d' % (fn,tot,un))
PY
