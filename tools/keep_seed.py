#!/usr/bin/env python3
"""tools/keep_seed.py <PROP> <n> <srcdir> "<what>" "<needs>"  - store a confirmed seeded change under /verif/seeded/<PROP>-<n>"""
import sys, os, shutil, json, datetime
prop, n, src, what, needs = sys.argv[1:6]
d = "/verif/seeded/%s-%s" % (prop, n)
os.makedirs(d, exist_ok=True)
for f in ("patch.diff", "demo.c", "run_demo.sh", "notes.txt"):
    if os.path.exists(os.path.join(src, f)):
        shutil.copy(os.path.join(src, f), d)
for f in os.listdir(src):
    if f.endswith((".c", ".h", ".sh", ".txt")) and not os.path.exists(os.path.join(d, f)):
        shutil.copy(os.path.join(src, f), d)
json.dump({"property": prop, "what": what, "needs_to_manifest": needs,
           "confirmed": "tools/confirm_seed.sh in a fresh scratch worktree of /repo HEAD on 2026-09-29: demo PASS on the original, patch applies, build 0 warnings, `make test` 100%: Checks: 71, Failures: 0, Errors: 0, demo FAIL with the patch",
           "checks_run": "see DESIGN.md section 11",
           "source": "independent sub-agent given only the property text"}, open(os.path.join(d, "meta.json"), "w"), indent=1)
print("kept", d)
