#!/bin/sh
# tools/run_seed.sh <seed-id> <PROP>... : run checks against /verif/seeded/<seed-id>/patch.diff applied to a scratch
# worktree of /repo HEAD (never touches /repo's working tree; evidence/replay go to scratch too)
id=$1; shift
wt=/tmp/wt_$id
git -C /repo worktree remove --force $wt 2>/dev/null
git -C /repo worktree add -q --detach $wt HEAD || exit 3
git -C $wt apply /verif/seeded/$id/patch.diff || { echo "patch does not apply"; git -C /repo worktree remove --force $wt; exit 3; }
for p in "$@"; do
  VERIF_REPO=$wt VERIF_BUILD=/tmp/wtb_$id VERIF_EVIDENCE=/tmp/wtb_$id/ev VERIF_REPLAYDIR=/tmp/wtb_$id/replay /verif/vc check $p $VERIF_SEED_ARGS 2>&1 | grep -E "VIOLATION|UNDECIDED|KNOWN|tier=|replayed" | cut -c1-330 | sed "s/^/[$id] /"
done
git -C /repo worktree remove --force $wt; rm -rf /tmp/wtb_$id
