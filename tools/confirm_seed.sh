#!/bin/sh
# confirm a seeded change independently: tools/confirm_seed.sh <seed dir containing patch.diff demo.c run_demo.sh> <name>
# fresh scratch worktree of /repo HEAD; demo must PASS on the original, tests must pass with the patch, demo must FAIL with it
set -u
SRC=$1; NAME=$2
WT=/tmp/confirm_$NAME
git -C /repo worktree remove --force $WT >/dev/null 2>&1
git -C /repo worktree add -f --detach $WT HEAD >/dev/null 2>&1 || exit 3
mkdir -p $WT/seed && cp -r $SRC/. $WT/seed/ && rm -f $WT/seed/demo $WT/seed/*.o
cd $WT/seed
(sh ./run_demo.sh) > /tmp/confirm_$NAME.orig.log 2>&1; RO=$?
git -C $WT apply $WT/seed/patch.diff || { echo "PATCH DOES NOT APPLY"; exit 3; }
make -C $WT > /tmp/confirm_$NAME.build.log 2>&1; RB=$?
WARN=$(grep -c "warning:" /tmp/confirm_$NAME.build.log)
make -C $WT test > /tmp/confirm_$NAME.test.log 2>&1; RT=$?
TESTLINE=$(grep -E "^[0-9]+%:" /tmp/confirm_$NAME.test.log | tail -1)
(sh ./run_demo.sh) > /tmp/confirm_$NAME.mut.log 2>&1; RM=$?
echo "$NAME: demo-orig rc=$RO  build rc=$RB warnings=$WARN  test rc=$RT [$TESTLINE]  demo-mutant rc=$RM"
cd /
git -C /repo worktree remove --force $WT
[ $RO -eq 0 ] && [ $RB -eq 0 ] && [ $RT -eq 0 ] && [ $RM -ne 0 ]
