/* Witness-search / native-replay vocabulary (DESIGN 4.7).
 *   -DVERIF_WITNESS (goto-cc, no dfcc): inputs are bounded nondet objects, the clauses are plain
 *     assertions, loops are unwound to a moderate bound; CBMC's trace gives the inputs.
 *   -DVERIF_REPLAY (clang -fsanitize=address,undefined): inputs are read from a text file
 *     ("name v0 v1 ..." per line), byte buffers are malloc'ed at their exact length so that
 *     ASan sees over-reads, clauses are runtime checks.                                        */
#ifndef VERIF_WIT_H
#define VERIF_WIT_H
#include <stdlib.h>
#include <string.h>
#include <stdio.h>

#ifdef VERIF_REPLAY
static const char *wit_file;
static int wit_lookup(const char *name, long long *vals, int max)
{
	FILE *f = fopen(wit_file, "r");
	char nm[128];
	int n = 0;
	if (!f) { fprintf(stderr, "cannot open %s\n", wit_file); exit(3); }
	while (fscanf(f, "%127s", nm) == 1) {
		int c, hit = strcmp(nm, name) == 0;
		long long v;
		n = 0;
		for (;;) {
			c = fgetc(f);
			while (c == ' ') c = fgetc(f);
			if (c == '\n' || c == EOF) break;
			ungetc(c, f);
			if (fscanf(f, "%lld", &v) != 1) break;
			if (hit && n < max) vals[n] = v;
			n++;
		}
		if (hit) { fclose(f); return n < max ? n : max; }
	}
	fclose(f);
	return 0;
}
#define WIT_SCALAR(type, name) type name; { long long v_[1] = {0}; wit_lookup(#name, v_, 1); name = (type)v_[0]; }
/* exact-size heap object of len bytes (len <= cap) */
#define WIT_BYTES(name, cap, len) unsigned char *name; { long long v_[cap]; int i_; memset(v_, 0, sizeof v_); \
	wit_lookup(#name "_store", v_, cap); if ((size_t)(len) > (size_t)(cap)) { fprintf(stderr, "REPLAY-SKIP: " #len " > cap\n"); exit(4); } \
	name = malloc((len) ? (len) : 1); for (i_ = 0; i_ < (int)(len); i_++) name[i_] = (unsigned char)v_[i_]; }
#define WIT_ASSUME(c) do { if (!(c)) { fprintf(stderr, "REPLAY-SKIP: assumption %s does not hold\n", #c); exit(4); } } while (0)
#define WIT_CHECK(c, text) do { if (!(c)) { fprintf(stderr, "REPLAY-FAIL: %s\n", text); exit(77); } } while (0)
#define WIT_MAIN(fn) int main(int argc, char **argv) { if (argc < 2) return 3; wit_file = argv[1]; fn(); printf("REPLAY-PASS\n"); return 0; }
#define WIT_OUT(name, n) unsigned char *name = calloc((n) ? (n) : 1, 1)
#elif defined(VERIF_WITNESS)
unsigned char nondet_uchar(void);
#ifdef WLEN
#define WIT_CONST_LEN(len) WLEN      /* assumed equal to len by the harness */
#else
#define WIT_CONST_LEN(len) (len)
#endif
#define WIT_SCALAR(type, name) type name; { type nondet_; name = nondet_; }
#define WIT_BYTES(name, cap, len) unsigned char name##_store[cap]; unsigned char *name; { int i_; \
	for (i_ = 0; i_ < (cap); i_++) name##_store[i_] = nondet_uchar(); \
	__CPROVER_assume((size_t)(len) <= (size_t)(cap)); name = malloc(WIT_CONST_LEN(len)); \
	for (i_ = 0; i_ < (cap); i_++) if ((size_t)i_ < (size_t)(len)) name[i_] = name##_store[i_]; }
#define WIT_ASSUME(c) __CPROVER_assume(c)
#define WIT_CHECK(c, text) __CPROVER_assert(c, "WIT_CHECK: " text)
#define WIT_MAIN(fn)
#define WIT_OUT(name, n) unsigned char *name = malloc(n)
#endif
#endif
