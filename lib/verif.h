/* common harness vocabulary */
#ifndef VERIF_H
#define VERIF_H
#include <stddef.h>
#ifdef VERIF_CBMC
#define VERIF_REACH() __CPROVER_assert(0, "VERIF_REACH: code after the call is reachable (must fail)")
#else
#define VERIF_REACH() ((void)0)
#endif
#endif
