/* Library models = assumed contracts (DESIGN 4.5). Only compiled for CBMC. Each model
 * asserts the library function's own preconditions (readable/writable extents) and
 * over-approximates its effect, keeping the content exact at one arbitrary ghost index. */
#ifndef VERIF_MODELS_LIBC_H
#define VERIF_MODELS_LIBC_H
#ifdef VERIF_CBMC
#include <stddef.h>
#include <string.h>
size_t g_m;          /* ghost: arbitrary byte index for copy models */
size_t nondet_size_t(void);

void *verif_memcpy(void *dst, const void *src, size_t n)
{
	if (n == 0)
		return dst;
	__CPROVER_assert(__CPROVER_r_ok(src, n), "memcpy: source readable for n bytes");
	__CPROVER_assert(__CPROVER_w_ok(dst, n), "memcpy: destination writable for n bytes");
	{
		unsigned char keep;
		_Bool has = g_m < n;
		if (has)
			keep = ((const unsigned char *)src)[g_m];
		__CPROVER_havoc_slice(dst, n);
		if (has)
			((unsigned char *)dst)[g_m] = keep;
	}
	return dst;
}

void *verif_memset(void *dst, int c, size_t n)
{
	if (n == 0)
		return dst;
	__CPROVER_assert(__CPROVER_w_ok(dst, n), "memset: destination writable for n bytes");
	__CPROVER_havoc_slice(dst, n);
	if (g_m < n)
		((unsigned char *)dst)[g_m] = (unsigned char)c;
	return dst;
}
#define memcpy verif_memcpy
#define memset verif_memset
#endif
#endif
