/* Library models = assumed contracts (DESIGN 4.5). Only compiled for CBMC. Each model
 * asserts the library function's own preconditions (readable/writable extents) and
 * over-approximates its effect, keeping the content exact at one arbitrary ghost index. */
#ifndef VERIF_MODELS_LIBC_H
#define VERIF_MODELS_LIBC_H
#ifdef VERIF_CBMC
#include <stddef.h>
#include <string.h>
size_t g_m;          /* ghost: arbitrary byte index for copy models */
size_t nondet_size_t(void);

void *verif_memcpy(void *dst, const void *src, size_t n)
{
	if (n == 0)
		return dst;
	__CPROVER_assert(__CPROVER_r_ok(src, n), "memcpy: source readable for n bytes");
	__CPROVER_assert(__CPROVER_w_ok(dst, n), "memcpy: destination writable for n bytes");
	{
		unsigned char keep;
		_Bool has = g_m < n;
		if (has)
			keep = ((const unsigned char *)src)[g_m];
		__CPROVER_havoc_slice(dst, n);
		if (has)
			((unsigned char *)dst)[g_m] = keep;
	}
	return dst;
}

void *verif_memset(void *dst, int c, size_t n)
{
	if (n == 0)
		return dst;
	__CPROVER_assert(__CPROVER_w_ok(dst, n), "memset: destination writable for n bytes");
	__CPROVER_havoc_slice(dst, n);
	if (g_m < n)
		((unsigned char *)dst)[g_m] = (unsigned char)c;
	return dst;
}

/* strlen: returns a position of a NUL with no NUL at one arbitrary earlier position (ghost g_s).
 * Over-approximates (a later NUL is also admitted); asserts that the scan cannot leave the
 * object: the object's last byte, or the byte the harness names in g_nul_hint, is NUL. */
size_t g_s;
size_t g_nul_hint;
size_t verif_strlen(const char *s)
{
	__CPROVER_assert(__CPROVER_r_ok(s, 1), "strlen: argument readable");
	size_t rem = __CPROVER_OBJECT_SIZE(s) - __CPROVER_POINTER_OFFSET(s);
	__CPROVER_assert(s[rem - 1] == 0 || (g_nul_hint < rem && s[g_nul_hint] == 0), "strlen: a NUL exists inside the object (no over-read)");
	size_t n = nondet_size_t();
	__CPROVER_assume(n < rem && s[n] == 0 && (g_s >= n || s[g_s] != 0));
	if (g_nul_hint < rem && s[g_nul_hint] == 0)
		__CPROVER_assume(n <= g_nul_hint);   /* the first NUL is not after a known NUL */
	return n;
}

/* strncpy: writes exactly n bytes; content kept at one ghost index */
char *verif_strncpy(char *dst, const char *src, size_t n)
{
	if (n == 0)
		return dst;
	__CPROVER_assert(__CPROVER_w_ok(dst, n), "strncpy: destination writable for n bytes");
	size_t sl = verif_strlen(src);
	unsigned char keep = 0;
	_Bool has = g_m < n;
	if (has)
		keep = g_m < sl ? ((const unsigned char *)src)[g_m] : 0;
	__CPROVER_havoc_slice(dst, n);
	if (has)
		((unsigned char *)dst)[g_m] = keep;
	return dst;
}
#define memcpy verif_memcpy
#ifndef VERIF_KEEP_MEMSET
#define memset verif_memset
#endif
#define strlen verif_strlen
#define strncpy verif_strncpy
#endif
#endif
#ifdef VERIF_STRLEN_MEMO
#ifndef VERIF_STRLEN_MEMO_DEFINED
#define VERIF_STRLEN_MEMO_DEFINED
/* The model above admits ANY NUL position, independently at every call, so MIN(strlen(x), room) - two
 * evaluations - can spuriously exceed the room.  Sound refinement: if the position returned by the previous
 * call on the same pointer still holds a NUL, the first NUL is not after it. */
static const char *g_sl_last;
static size_t g_sl_n;
static size_t verif_strlen_memo(const char *s)
{
	size_t n = verif_strlen(s);
	size_t rem = __CPROVER_OBJECT_SIZE(s) - __CPROVER_POINTER_OFFSET(s);
	if (s == g_sl_last && g_sl_n < rem && s[g_sl_n] == 0)
		__CPROVER_assume(n <= g_sl_n);
	g_sl_last = s;
	g_sl_n = n;
	return n;
}
#undef strlen
#define strlen verif_strlen_memo
#endif
#endif
