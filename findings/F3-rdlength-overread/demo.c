/* F3: dns_decode() (answer direction) copies min(RDLENGTH, 4096) bytes of record data without
 * checking that RDLENGTH bytes are present in the datagram (NULL/PRIVATE, A and TXT answers).
 * A short reply then delivers bytes that an earlier, longer reply left in the receive buffer (C12),
 * or reads past an exactly-sized buffer (C06).
 * Build: cc -I/repo/src demo.c /repo/src/dns.c /repo/src/read.c ; exit 1 = stale bytes delivered */
#include <stdio.h>
#include <string.h>
#include "common.h"
#include "dns.h"
int main(void)
{
	static char pkt[64 * 1024];
	char out[4096];
	struct query q;
	int r;
	/* reply: header(qr=1, qd=1, an=1) question "a" NULL IN; answer: ptr, NULL, IN, ttl, RDLENGTH=40, 2 data bytes */
	unsigned char reply[] = { 0x12,0x34, 0x84,0x00, 0,1, 0,1, 0,0, 0,0,
		1,'a',0, 0,10, 0,1,
		0xc0,12, 0,10, 0,1, 0,0,0,0, 0,40, 'o','k' };
	memset(pkt, 'S', sizeof pkt);                 /* bytes of an earlier datagram */
	memcpy(pkt, reply, sizeof reply);
	memset(out, 0, sizeof out);
	r = dns_decode(out, sizeof out, &q, QR_ANSWER, pkt, sizeof reply);
	printf("reply of %d bytes carrying 2 data bytes: dns_decode returned %d bytes: %.40s\n", (int)sizeof reply, r, out);
	if (r > 2) {
		printf("DEFECT: %d bytes beyond the datagram were delivered as payload\n", r - 2);
		return 1;
	}
	return 0;
}
