/* F5: handle_null_request() assembles the 32-bit protocol version as
 * ((unpacked[0] & 0xff) << 24) | ... on int: a first byte >= 0x80 shifts a 1 into the sign bit,
 * which is undefined behaviour (C05).  Any unauthenticated 'V' request can carry such a byte.
 * Build (from /repo/src): as for F4 with -fsanitize=undefined -fno-sanitize-recover=all.
 * Expected on the defective tree: "left shift of 255 by 24 places cannot be represented in type 'int'". */
#define main iodined_main
#include "iodined.c"
#undef main
int main(void)
{
	struct query q;
	struct dnsfd fds = { -1, -1 };
	init_users(inet_addr("10.0.0.1"), 27);
	created_users = 1;
	memset(&q, 0, sizeof q);
	/* 'V' + Base32 of ff ff ff ff 00 -> "9999999a" is not base32; use chars decoding to 0xff..: '5' = 31 */
	strcpy(q.name, "V55555555.t.example.com");
	q.type = T_NULL;
	q.id = 7;
	q.fromlen = sizeof(struct sockaddr_in);
	handle_null_request(-1, -1, &fds, &q, 9);
	printf("no undefined behaviour detected\n");
	return 0;
}
