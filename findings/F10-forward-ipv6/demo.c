/* F10: forward_query() (DNS forwarding, -b) rewrites only sin_addr and sin_port of the asker's socket
 * address to 127.0.0.1:bind_port and leaves the address family alone.  For a query that arrived over IPv6
 * the destination handed to sendto() is still a sockaddr_in6 (family AF_INET6, flow label overwritten with
 * 0x7f000001, address = the asker's own), while the forwarding socket is an IPv4 socket
 * (open_dns_from_host(NULL, 0, AF_INET, 0) in main): sendto() fails with EAFNOSUPPORT and the query is never
 * relayed to the local DNS port (C20: "a query for a name outside the tunnel domain is relayed to the local
 * DNS port with the same id, name and type").
 * Build (from /repo/src after `make`):
 *   cc -std=gnu99 -g -w -DLINUX -DGITREVISION='"demo"' $(sh osflags Linux cflags) -I. -o /tmp/f10 \
 *      /verif/findings/F10-forward-ipv6/demo.c tun.c dns.c read.c encoding.c login.c base32.c base64.c base64u.c base128.c md5.c common.c user.c fw_query.c -lz $(sh osflags Linux link)
 * Expected: PASS (the local DNS port receives the query) on a correct tree; on the defective tree prints
 * FAIL (nothing arrives) and exits 1. */
#define main iodined_main
#include "iodined.c"
#undef main
#include <poll.h>
int main(void)
{
	struct query q;
	struct sockaddr_in local;
	struct sockaddr_in6 *six;
	socklen_t ll = sizeof(local);
	char rbuf[512];
	struct pollfd pfd;
	int lfd, bfd, n;

	lfd = socket(AF_INET, SOCK_DGRAM, 0);                    /* stands for the local DNS server */
	memset(&local, 0, sizeof(local));
	local.sin_family = AF_INET;
	local.sin_addr.s_addr = htonl(0x7f000001);
	if (bind(lfd, (struct sockaddr *)&local, sizeof(local)) < 0) { perror("bind"); return 2; }
	getsockname(lfd, (struct sockaddr *)&local, &ll);
	bind_port = ntohs(local.sin_port);
	bfd = socket(AF_INET, SOCK_DGRAM, 0);                    /* what main() opens for -b */

	fw_query_init();
	memset(&q, 0, sizeof(q));
	strcpy(q.name, "www.example.org");
	q.type = T_A;
	q.id = 0x1234;
	six = (struct sockaddr_in6 *)&q.from;                    /* the asker reached us over IPv6 */
	six->sin6_family = AF_INET6;
	six->sin6_port = htons(40000);
	six->sin6_addr = in6addr_loopback;
	q.fromlen = sizeof(struct sockaddr_storage);             /* what read_dns stores */

	forward_query(bfd, &q);

	pfd.fd = lfd; pfd.events = POLLIN;
	n = poll(&pfd, 1, 500) > 0 ? (int)recv(lfd, rbuf, sizeof(rbuf), 0) : -1;
	if (n < 12 || (unsigned char)rbuf[0] != 0x12 || (unsigned char)rbuf[1] != 0x34) {
		printf("FAIL: the query of an IPv6 asker was not relayed to 127.0.0.1:%d (received %d bytes)\n", bind_port, n);
		return 1;
	}
	printf("PASS: %d bytes relayed, id %02x%02x\n", n, (unsigned char)rbuf[0], (unsigned char)rbuf[1]);
	return 0;
}
