/* F6 (C13): tun_setip() validates the peer-supplied client address with inet_addr() only.  glibc's
 * inet_addr() accepts a valid address followed by white space and ANY trailing text, and the raw
 * string is then formatted with %s into the command given to system().  A login reply
 * "10.9.0.1-10.9.0.2 ;touch /tmp/pwned;-1130-27" makes the (root) client run the attacker's text.
 * Build: gcc -DLINUX -D_GNU_SOURCE -I/repo/src demo.c -o demo && ./demo   (exit 1 = defect present) */
#include <stdio.h>
#include <string.h>
static char last_cmd[1024];
static int demo_system(const char *cmd) { strncpy(last_cmd, cmd, sizeof(last_cmd) - 1); return 0; }
#define system demo_system
void fd_set_close_on_exec(int fd) { }
#include "tun.c"
#undef system
int main(void)
{
	const char *evil = "10.9.0.2 ;touch /tmp/pwned;";
	int r = tun_setip(evil, "10.9.0.1", 27);
	printf("tun_setip returned %d, command: [%s]\n", r, last_cmd);
	if (strstr(last_cmd, "touch")) { printf("FAIL: peer text reached the shell\n"); return 1; }
	printf("PASS\n");
	return 0;
}
