/* F14: dns_decode() (answer direction, MX/SRV host-name list) clamps each name to the room left with
 *   int l = MIN(strlen(names[i]), buflen-offset-2);
 * in size_t arithmetic.  When a name is clamped, offset becomes buflen-1, and for the NEXT name
 * buflen-offset-2 wraps to SIZE_MAX: the clamp is off and every following name is copied behind
 * the caller's buffer.  The client's handshake passes a 4096-byte stack buffer (read_dns_withq from
 * handshake_waitdns), a reply may carry 249 names of 255 characters (C06: arbitrary replies).
 * Build: cc -fsanitize=address -I/repo/src demo.c /repo/src/dns.c /repo/src/read.c
 * exit 1 (or an ASan report) = bytes written behind out[4096] */
#include <stdio.h>
#include <string.h>
#include "common.h"
#include "dns.h"
int main(void)
{
	static unsigned char pkt[64 * 1024];
	struct { char out[4096]; char canary[8192]; } s;
	struct query q;
	unsigned char *p = pkt;
	int n = 30, k, j, r;
	/* header: id, qr=1, qd=1, an=n */
	*p++ = 0x12; *p++ = 0x34; *p++ = 0x84; *p++ = 0x00; *p++ = 0; *p++ = 1; *p++ = 0; *p++ = n; *p++ = 0; *p++ = 0; *p++ = 0; *p++ = 0;
	/* question "a" MX IN */
	*p++ = 1; *p++ = 'a'; *p++ = 0; *p++ = 0; *p++ = 15; *p++ = 0; *p++ = 1;
	for (k = 1; k <= n; k++) {
		unsigned char *rl;
		*p++ = 0xc0; *p++ = 12;                       /* owner: pointer to the question name */
		*p++ = 0; *p++ = 15; *p++ = 0; *p++ = 1;      /* MX IN */
		*p++ = 0; *p++ = 0; *p++ = 0; *p++ = 0;       /* ttl */
		rl = p; p += 2;                               /* RDLENGTH, filled below */
		*p++ = (k * 10) >> 8; *p++ = (k * 10) & 0xff; /* preference 10, 20, ... */
		for (j = 0; j < 4; j++) {                     /* 4 labels of 50 characters */
			*p++ = 50; memset(p, 'x', 50); p += 50;
		}
		*p++ = 0;
		rl[0] = (p - rl - 2) >> 8; rl[1] = (p - rl - 2) & 0xff;
	}
	memset(&s, 0x55, sizeof s);
	r = dns_decode(s.out, sizeof s.out, &q, QR_ANSWER, (char *) pkt, p - pkt);
	printf("MX reply with %d names of 203 characters into a buffer of %d: dns_decode returned %d\n", n, (int) sizeof s.out, r);
	for (k = 0; k < (int) sizeof s.canary; k++)
		if (s.canary[k] != 0x55) {
			printf("DEFECT: byte %d behind the buffer was overwritten\n", k);
			return 1;
		}
	if (r > (int) sizeof s.out) { printf("DEFECT: result beyond the buffer\n"); return 1; }
	return 0;
}
