/* F13: the client keeps the userid byte of the server's version reply in a plain `char userid` (handshake_version:
 * userid = in[8]) and send_fragsize_probe() computes (userid << 1): for a byte >= 0x80 from a hostile or broken server
 * that is a left shift of a negative value - undefined behaviour (C06).
 * Build (from /repo/src after `make`):
 *   cc -std=gnu99 -g -w -fsanitize=undefined -fno-sanitize-recover=undefined -DLINUX -DGITREVISION='"demo"' $(sh osflags Linux cflags) -I. -o /tmp/f13 \
 *      /verif/findings/F13-userid-shift/demo.c tun.c dns.c read.c encoding.c login.c base32.c base64.c base64u.c base128.c md5.c common.c util.c -lz $(sh osflags Linux link)
 * Expected: PASS on a correct tree; on the defective tree UBSan: "left shift of negative value -128" in send_fragsize_probe. */
#include "client.c"
int main(void)
{
	static char reply[9] = { 'V', 'A', 'C', 'K', 0, 0, 0, 1, (char)0x80 };      /* what handshake_version parses */
	client_init();
	client_set_topdomain("t.example.com");
	userid = reply[8];                      /* handshake_version: userid = in[8]; */
	send_fragsize_probe(-1, 1200);          /* the fragment size autoprobe that follows the login */
	printf("PASS\n");
	return 0;
}
