/* F7 (C06): tun_setip() builds the netmask in a signed int from the peer-supplied width in the login
 * reply: (netmask << 1) | 1 and netmask <<= (32 - netbits) overflow int for every width >= 1 reaching
 * bit 31, shift by 32 for width 0, shift by a negative count for width > 32; a width like 2000000000
 * also spins the loop two billion times.
 * Build: clang -fsanitize=undefined -fno-sanitize-recover=all -DLINUX -D_GNU_SOURCE -I/repo/src demo.c -o demo
 * Expected on the defective tree: "left shift of ... cannot be represented in type 'int'" / "shift exponent -1 is negative". */
#include <stdio.h>
static int demo_system(const char *cmd) { return 0; }
#define system demo_system
void fd_set_close_on_exec(int fd) { }
#include "tun.c"
#undef system
int main(void)
{
	tun_setip("10.9.0.2", "10.9.0.1", 27);   /* ordinary login */
	tun_setip("10.9.0.2", "10.9.0.1", 33);   /* hostile: negative shift count */
	tun_setip("10.9.0.2", "10.9.0.1", 0);    /* hostile: shift by 32 */
	printf("no undefined behaviour detected\n");
	return 0;
}
