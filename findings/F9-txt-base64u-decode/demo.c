/* F9: the client decodes a TXT answer whose first character is 'u' (downstream codec Base64u, what the
 * server emits for -O base64u with TXT queries: iodined.c write_dns, txtbuf[0] = 'u', base64u_ops.encode)
 * with the Base64 decoder (client.c dns_namedec, case 'u': base64_ops.decode).  The two alphabets differ in
 * their last character ('_' vs '+'): every 6-bit group of value 63 is sent as '_' and decoded as 0, so the
 * client extracts DIFFERENT BYTES from the answer (C09: "never different bytes").
 * Build (from /repo/src after `make`):
 *   cc -std=gnu99 -g -w -DLINUX -DGITREVISION='"demo"' $(sh osflags Linux cflags) -I. -o /tmp/f9 \
 *      /verif/findings/F9-txt-base64u-decode/demo.c tun.c dns.c read.c encoding.c login.c base32.c base64.c base64u.c base128.c md5.c common.c util.c -lz $(sh osflags Linux link)
 * Expected: prints PASS and exits 0 on a correct tree; on the defective tree prints the first differing byte and exits 1. */
#include "client.c"
int main(void)
{
	unsigned char payload[24], out[64];
	char txt[64];
	size_t space = sizeof(txt) - 2;
	int i, n;
	for (i = 0; i < 24; i++) payload[i] = 0xff;           /* all 6-bit groups are 63 */
	payload[0] = 0; payload[1] = 0;                       /* 2-byte data header */
	txt[0] = 'u';                                         /* exactly what write_dns does for TXT + 'U' */
	n = base64u_ops.encode(txt + 1, &space, payload, sizeof(payload));
	n = dns_namedec((char *)out, sizeof(out), txt, n + 1);
	if (n != (int)sizeof(payload)) { printf("FAIL: length %d != %d\n", n, (int)sizeof(payload)); return 1; }
	for (i = 0; i < n; i++)
		if (out[i] != payload[i]) { printf("FAIL: byte %d is 0x%02x, sent 0x%02x (text %s)\n", i, out[i], payload[i], txt); return 1; }
	printf("PASS\n");
	return 0;
}
