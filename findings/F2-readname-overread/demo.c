/* F2: readname_loop() reads label bytes and compression-pointer targets without comparing the
 * cursor with packet+packetlen.  A short datagram whose name is a compression pointer to its own
 * end makes dns_decode() return a name taken from whatever an earlier, longer datagram left in the
 * receive buffer (C12; C05/C06 when the buffer is exactly as long as the datagram).
 * Build: cc -I/repo/src demo.c /repo/src/dns.c /repo/src/read.c -o demo  (plus -fsanitize=address
 * for the exact-size variant).  Exit 1 = stale bytes were interpreted. */
#include <stdio.h>
#include <string.h>
#include <stdlib.h>
#include "common.h"
#include "dns.h"
#include "encoding.h"
int main(void)
{
	static char buf[64 * 1024];
	struct query q;
	/* datagram 1 (victim): a normal query for "secretdata.t.example.com", type NULL */
	unsigned char victim[] = { 0x12,0x34, 0x01,0x00, 0,1, 0,0, 0,0, 0,0,
		10,'s','e','c','r','e','t','d','a','t','a', 1,'t', 7,'e','x','a','m','p','l','e', 3,'c','o','m', 0,
		0,10, 0,1 };
	/* datagram 2 (attacker): header + pointer to offset 23 (== its own length) + type + class,
	 * padded so that it ends exactly where the victim's second label starts */
	unsigned char attacker[23] = { 0xab,0xcd, 0x01,0x00, 0,1, 0,0, 0,0, 0,0,
		0xc0, 23, 0,10, 0,1, 0,0,0,0,0 };
	int r;
	memcpy(buf, victim, sizeof victim);
	memset(&q, 0, sizeof q);
	r = dns_decode(NULL, 0, &q, QR_QUERY, buf, sizeof victim);
	printf("datagram 1: r=%d name=%s\n", r, q.name);
	memcpy(buf, attacker, sizeof attacker);           /* shorter datagram, same buffer */
	memset(&q, 0, sizeof q);
	r = dns_decode(NULL, 0, &q, QR_QUERY, buf, sizeof attacker);
	printf("datagram 2 (%d bytes): r=%d name=%s\n", (int)sizeof attacker, r, q.name);
	if (r > 0 && strstr(q.name, "example")) {
		printf("DEFECT: the 23-byte datagram was decoded using bytes of the previous datagram\n");
		return 1;
	}
	return 0;
}
