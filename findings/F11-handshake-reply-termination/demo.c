/* F11: two defects in how the client's handshake parsers delimit the reply they got from handshake_waitdns(in, sizeof(in)):
 *
 *  (a) handshake_switch_codec / handshake_switch_downenc write the terminator with `in[read] = 0` although read can be
 *      sizeof(in) = 4096 (a NULL/PRIVATE-type reply whose RDLENGTH is 4096 or more): one byte is written behind the
 *      stack buffer (C06: "without ... writing outside its buffers").
 *  (b) handshake_login hands `in` to sscanf("%64[^-]-%64[^-]-%d-%d") without terminating it at all: the parser reads on
 *      behind the reply into whatever the buffer held before - here the bytes of the PREVIOUS (rejected) login reply of
 *      the same retry loop: the reply "10.0.0.1-10.0.0.2-1130-2" is parsed with netmask 277 because the previous reply
 *      left "77" behind it (C06: reading outside the reply / C12: interpretation depends on an earlier datagram).
 *
 * The real client.c runs unmodified (handshake_* -> handshake_waitdns -> read_dns_withq -> dns_decode); a fake server on
 * 127.0.0.1 answers the client's queries with type-NULL records.  tun_setip/tun_setmtu are recorders here (tun.c is not
 * linked) so that nothing is configured.
 * Build (from /repo/src after `make`):
 *   cc -std=gnu99 -g -w -fsanitize=address -DLINUX -DGITREVISION='"demo"' $(sh osflags Linux cflags) -I. -o /tmp/f11 \
 *      /verif/findings/F11-handshake-reply-termination/demo.c dns.c read.c encoding.c login.c base32.c base64.c base64u.c base128.c md5.c common.c util.c -lz
 * Expected: PASS on a correct tree; on the defective tree (a) AddressSanitizer stack-buffer-overflow WRITE of size 1 in
 * handshake_switch_codec, (b) "netmask parsed as 277". */
#include "client.c"
#include <sys/wait.h>
const char *__asan_default_options(void) { return "exitcode=66:detect_leaks=0:abort_on_error=0"; }
static int g_netbits = -1;
int tun_setip(const char *ip, const char *other_ip, int netbits) { g_netbits = netbits; return 0; }
int tun_setmtu(const unsigned mtu) { return 0; }
int open_tun(const char *d) { return -1; } void close_tun(int fd) { } int write_tun(int fd, char *d, size_t l) { return 0; } ssize_t read_tun(int fd, char *b, size_t l) { return 0; }
static int
udp_local(struct sockaddr_in *addr)
{
	socklen_t alen = sizeof(*addr);
	int fd = socket(AF_INET, SOCK_DGRAM, 0);

	if (fd < 0) {
		perror("socket");
		exit(2);
	}
	memset(addr, 0, sizeof(*addr));
	addr->sin_family = AF_INET;
	addr->sin_addr.s_addr = htonl(INADDR_LOOPBACK);
	addr->sin_port = 0;
	if (bind(fd, (struct sockaddr *) addr, sizeof(*addr)) < 0) {
		perror("bind");
		exit(2);
	}
	if (getsockname(fd, (struct sockaddr *) addr, &alen) < 0) {
		perror("getsockname");
		exit(2);
	}
	return fd;
}


/* answer one query with a NULL record carrying rdata[0..rdlen) */
static void serve_one(int sfd, const unsigned char *rdata, int rdlen)
{
	static unsigned char query[4096], reply[16 * 1024];
	struct sockaddr_storage from; socklen_t fromlen = sizeof(from);
	struct timeval tv = { 5, 0 };
	unsigned char *p; int qlen, i;
	setsockopt(sfd, SOL_SOCKET, SO_RCVTIMEO, &tv, sizeof(tv));
	qlen = recvfrom(sfd, query, sizeof(query), 0, (struct sockaddr *) &from, &fromlen);
	if (qlen < 17) return;
	i = 12; while (i < qlen && query[i] != 0) i += query[i] + 1;
	i += 5; if (i > qlen) return;
	memcpy(reply, query, i);
	reply[2] = 0x84; reply[3] = 0; reply[6] = 0; reply[7] = 1; reply[8] = reply[9] = reply[10] = reply[11] = 0;
	p = reply + i;
	*p++ = 0xc0; *p++ = 0x0c; *p++ = 0; *p++ = 10; *p++ = 0; *p++ = 1; *p++ = 0; *p++ = 0; *p++ = 0; *p++ = 0;
	*p++ = (rdlen >> 8) & 0xff; *p++ = rdlen & 0xff;
	memcpy(p, rdata, rdlen); p += rdlen;
	sendto(sfd, reply, p - reply, 0, (struct sockaddr *) &from, fromlen);
}
static void client_setup(int cfd, struct sockaddr_in *saddr)
{
	static char pw[33] = "secret";
	struct sockaddr_storage ns;
	memset(&ns, 0, sizeof(ns)); memcpy(&ns, saddr, sizeof(*saddr));
	client_init(); client_set_nameserver(&ns, sizeof(*saddr)); client_set_topdomain("t.example.com");
	client_set_password(pw); client_set_qtype("NULL"); userid = 3;
}
static int case_a(void)
{
	static unsigned char big[4096];
	struct sockaddr_in saddr, caddr; int sfd = udp_local(&saddr), cfd = udp_local(&caddr), status; pid_t pid;
	memset(big, 'A', sizeof(big));
	fflush(NULL);
	if ((pid = fork()) == 0) { close(sfd); client_setup(cfd, &saddr); handshake_switch_codec(cfd, 6); _exit(0); }
	close(cfd); serve_one(sfd, big, sizeof(big)); close(sfd);
	waitpid(pid, &status, 0);
	if (WIFEXITED(status) && WEXITSTATUS(status) == 0) { printf("(a) codec switch reply of 4096 bytes: ok\n"); return 0; }
	printf("(a) VIOLATION: codec switch reply of 4096 bytes: memory error in the client (status 0x%x, see report above)\n", status);
	return 1;
}
static int case_b(void)
{
	struct sockaddr_in saddr, caddr; int sfd = udp_local(&saddr), cfd = udp_local(&caddr), status; pid_t pid;
	const char *r1 = "zzzzzzzzzzzzzzzzzzzzzzzz77", *r2 = "10.0.0.1-10.0.0.2-1130-2";
	fflush(NULL);
	if ((pid = fork()) == 0) { close(sfd); client_setup(cfd, &saddr); handshake_login(cfd, 0x12345678); _exit(g_netbits == 2 ? 0 : g_netbits == 277 ? 7 : 8); }
	close(cfd); serve_one(sfd, (const unsigned char *)r1, strlen(r1)); serve_one(sfd, (const unsigned char *)r2, strlen(r2)); close(sfd);
	waitpid(pid, &status, 0);
	if (WIFEXITED(status) && WEXITSTATUS(status) == 0) { printf("(b) login reply \"%s\": netmask parsed as 2: ok\n", r2); return 0; }
	if (WIFEXITED(status) && WEXITSTATUS(status) == 7) printf("(b) VIOLATION: login reply \"%s\" parsed with netmask 277: the digits \"77\" were left in the buffer by the previous reply\n", r2);
	else printf("(b) VIOLATION: unexpected client result (status 0x%x)\n", status);
	return 1;
}
int main(void)
{
	int bad;
	setvbuf(stdout, NULL, _IONBF, 0);
	bad = case_a() + case_b();
	printf(bad ? "FAIL\n" : "PASS\n");
	return bad != 0;
}
