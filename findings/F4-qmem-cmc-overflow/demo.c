/* F4: save_to_qmem_pingordata() decodes a ping's Base32 text into `char cmc[8]` with
 * *buflen = sizeof(cmc).  The decoders write a terminating NUL at buf[result] and document that
 * the buffer must be one byte larger than *buflen; a ping whose first label carries 13 or more
 * Base32 characters decodes to 8 bytes and the NUL lands at cmc[8] (C05: write outside a buffer).
 * Build (from /repo/src after `make`):
 *   cc -std=gnu99 -g -w -fsanitize=address -DLINUX -DGITREVISION='"demo"' $(sh osflags Linux cflags) -I. -o /tmp/f4 \
 *      /verif/findings/F4-qmem-cmc-overflow/demo.c tun.c dns.c read.c encoding.c login.c base32.c base64.c base64u.c base128.c md5.c common.c user.c fw_query.c -lz $(sh osflags Linux link)
 * Expected on the defective tree: AddressSanitizer stack-buffer-overflow in base32_decode called
 * from save_to_qmem_pingordata. */
#define main iodined_main
#include "iodined.c"
#undef main
int main(void)
{
	struct query q;
	init_users(inet_addr("10.0.0.1"), 27);
	memset(&q, 0, sizeof q);
	strcpy(q.name, "Paaaaaaaaaaaaaaaa.t.example.com");   /* 'P' + 16 Base32 characters */
	q.type = T_NULL;
	q.id = 7;
	save_to_qmem_pingordata(0, &q);
	printf("no overflow detected\n");
	return 0;
}
