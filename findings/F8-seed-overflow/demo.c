/* F8 (C06, C05): the raw-login challenge arithmetic seed + 1 / seed - 1 is done on a signed int.  The client
 * takes the challenge from the server's version reply (any 32-bit value): a hostile server answering VACK with
 * challenge 0x7fffffff makes the client evaluate INT_MAX + 1 (and 0x80000000 makes it evaluate INT_MIN - 1):
 * signed overflow, undefined behaviour.  The server does the same on rand() values (only for rand() == RAND_MAX).
 * Build: clang -fsanitize=undefined -fno-sanitize-recover=all -std=c99 -DLINUX -D_GNU_SOURCE -I/repo/src demo.c \
 *        /repo/src/{login,md5,common,base32,base64,base128,encoding,dns,read,util,tun}.c <generated base64u.c> -lz
 * Expected on the defective tree: "signed integer overflow: 2147483647 + 1 cannot be represented in type 'int'". */
#include <limits.h>
#define main client_main_unused
#include "client.c"
#undef main
int main(void)
{
	password = "0123456789012345678901234567890123";
	send_raw_udp_login(-1, INT_MAX);       /* challenge 0x7fffffff from the version reply */
	printf("no undefined behaviour detected\n");
	return 0;
}
