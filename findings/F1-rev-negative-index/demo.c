/* F1: base32/base64 reverse tables indexed with a plain (signed) char: bytes >= 0x80 in a
 * received name index rev32[-128..-1] / rev64[-128..-1]  (C05/C06: read outside the buffer).
 * Build: clang -fsanitize=address,undefined -fno-sanitize-recover=all -I/repo/src demo.c
 * Expected on the defective tree: UBSan "index -128 out of bounds for type 'unsigned char [256]'" */
#include <stdio.h>
#include "base32.c"
#undef reverse_init
#define cb64 cb64_
#define reverse_init reverse_init64
#include "base64.c"
int main(void)
{
	char out[16]; size_t cap = 8;
	const char in32[8] = { (char)0x80, (char)0xff, 'a', 'b', 'c', 'd', 'e', 'f' };
	int r = base32_ops.decode(out, &cap, in32, sizeof in32);
	printf("base32 decode of bytes>=0x80: r=%d\n", r);
	cap = 8;
	r = base64_ops.decode(out, &cap, in32, sizeof in32);
	printf("base64 decode of bytes>=0x80: r=%d\n", r);
	printf("b32_8to5((char)0x90)=%d\n", b32_8to5((char)0x90));
	return 0;
}
