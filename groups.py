"""Obligation groups (DESIGN 4.2).  One group = one goto-cc/goto-instrument/cbmc pipeline."""
GROUPS = []

def G(**kw):
    kw.setdefault("tier", "quick")
    kw.setdefault("kind", "proof")
    GROUPS.append(kw)

CODECS = [("32", "base32", None), ("64", "base64", None), ("65", "base64u", "base64u"), ("128", "base128", None)]
for num, nm, gen in CODECS:
    G(name="codec%s_enc" % num, harness="h_codec.c", defs=["CODEC=" + num], defs_quick=["CMAX=4096ul"], entry="h_encode",
      enforce=[nm + "_encode"], loops="codec.inv", loop_fns=["C_ENCODE"], spec_incs=["spec/codec.h"], gen=gen,
      props={"C07": "all", "C05": "safety", "C06": "safety"}, min_obl=100, replay={"entry": "w_encode", "unwind": 14},
      what="%s_encode: length, capacity, terminator, frame, every emitted character is the documented bit-stream character (ghost index), unbounded by loop contract" % nm)
    G(name="codec%s_dec" % num, harness="h_codec.c", defs=["CODEC=" + num], defs_quick=["CMAX=4096ul"], entry="h_decode",
      enforce=[nm + "_decode"], replace=[nm + "_reverse_init"], loops="codec.inv", loop_fns=["C_DECODE"], spec_incs=["spec/codec.h"], gen=gen,
      props={"C07": "contract", "C05": "safety", "C06": "safety"}, min_obl=100, replay={"entry": "w_decode", "unwind": 8},
      what="%s_decode: length maximal, every byte is the regrouped bit stream of the reverse-mapped characters (ghost index), stops at NUL, unbounded by loop contract" % nm)

    G(name="codec%s_revinit" % num, harness="h_codec.c", defs=["CODEC=" + num], entry="h_revinit",
      enforce=[nm + "_reverse_init"], gen=gen,
      unwindset=["%s_reverse_init_wrapped_for_contract_checking.0:%d" % (nm, {"32": 33, "64": 65, "65": 65, "128": 129}[num])],
      props={"C07": "contract", "C05": "safety", "C06": "safety"}, min_obl=20,
      what="%s_reverse_init establishes the table invariant rev[c]==SPEC_REV(c) for all 256 c from any state satisfying it (literal loop bound, exact unrolling)" % nm)

    G(name="codec%s_roundtrip" % num, harness="h_codec.c", defs=["CODEC=" + num], defs_quick=["CMAX=4096ul"], entry="h_roundtrip",
      replace=[nm + "_encode", nm + "_decode"], gen=gen, props={"C07": "contract"}, min_obl=2, replay={"entry": "w_roundtrip", "unwind": 14},
      what="lemma over the two contracts: decode(encode(x)) has the length the encoder reported and every byte equals the input byte; chunking loses and repeats nothing")
    G(name="codec%s_alphabet" % num, harness="h_codec.c", defs=["CODEC=" + num], entry="h_alphabet", gen=gen,
      props={"C07": "contract"}, min_obl=4,
      what="alphabet lemma: documented character classes, distinct, no NUL/dot, reverse map inverts")
G(name="b32_5to8", harness="h_codec.c", defs=["CODEC=32"], entry="h_5to8", enforce=["b32_5to8"], replay={"entry": "w_5to8", "unwind": 33},
  props={"C07": "contract", "C05": "safety", "C06": "safety"}, what="b32_5to8 is the Base32 alphabet lookup for all int arguments")
G(name="b32_8to5", harness="h_codec.c", defs=["CODEC=32"], entry="h_8to5", enforce=["b32_8to5"], replace=["base32_reverse_init"], replay={"entry": "w_8to5", "unwind": 33},
  props={"C07": "contract", "C05": "safety", "C06": "safety"}, what="b32_8to5 is the Base32 reverse map for all int arguments (incl. negative char values), result 0..31")

PARSE_CHECKS = ["--bounds-check", "--pointer-check", "--div-by-zero-check", "--undefined-shift-check",
                "--signed-overflow-check", "--pointer-primitive-check"]
G(name="readname_loop", harness="h_read.c", entry="h_readname_loop", style="legacy", enforce=["readname_loop"],
  loops="read.inv", loop_fns=["readname_loop_top"], checks=PARSE_CHECKS, replay={"entry": "w_readname", "unwind": 7, "timeout": 200, "enum": {"WLEN": [1, 2, 3, 4, 5, 6]}},
  props={"C12": "all", "C05": "safety", "C06": "safety"}, min_obl=50,
  what="readname_loop on a datagram object of exactly packetlen bytes: no read outside it, writes only dst[0..length), result/cursor ranges, terminates (loop variants); the recursive call is a stub carrying the same contract")
G(name="readname", harness="h_read.c", entry="h_readname", style="legacy", enforce=["readname"], checks=PARSE_CHECKS,
  props={"C12": "all", "C05": "safety", "C06": "safety"}, min_obl=5, what="readname = readname_loop with depth 10")

LEVELS = {}
TRUSTED_BASE = ["CBMC 6.11.0 (goto-cc front end, goto-instrument --dfcc contract instrumentation, symex)",
                "kissat (SAT back end)", "gcc -E (expansion of spec macros inside loop contracts)"]
PROP_TRUST = {}
ASSUMPTIONS = ["A1 CBMC/kissat are sound", "A11 only the Linux #ifdef branches are compiled (flags from src/osflags)"]
PROP_ASSUME = {}
EXPLAIN = {}
