"""Obligation groups (DESIGN 4.2).  One group = one goto-cc/goto-instrument/cbmc pipeline."""
GROUPS = []

def G(**kw):
    kw.setdefault("tier", "quick")
    kw.setdefault("kind", "proof")
    GROUPS.append(kw)

CODECS = [("32", "base32", None), ("64", "base64", None), ("65", "base64u", "base64u"), ("128", "base128", None)]
for num, nm, gen in CODECS:
    G(name="codec%s_enc" % num, harness="h_codec.c", defs=["CODEC=" + num], defs_quick=["CMAX=4096ul"], entry="h_encode",
      enforce=[nm + "_encode"], loops="codec.inv", loop_fns=["C_ENCODE"], spec_incs=["spec/codec.h"], gen=gen,
      props={"C07": "all", "C05": "safety", "C06": "safety"}, min_obl=100, replay={"entry": "w_encode", "unwind": 14},
      what="%s_encode: length, capacity, terminator, frame, every emitted character is the documented bit-stream character (ghost index), unbounded by loop contract" % nm)
    G(name="codec%s_dec" % num, harness="h_codec.c", defs=["CODEC=" + num], defs_quick=["CMAX=4096ul"], entry="h_decode",
      enforce=[nm + "_decode"], replace=[nm + "_reverse_init"], loops="codec.inv", loop_fns=["C_DECODE"], spec_incs=["spec/codec.h"], gen=gen,
      props={"C07": "contract", "C05": "safety", "C06": "safety"}, min_obl=100, replay={"entry": "w_decode", "unwind": 8},
      what="%s_decode: length maximal, every byte is the regrouped bit stream of the reverse-mapped characters (ghost index), stops at NUL, unbounded by loop contract" % nm)

    G(name="codec%s_revinit" % num, harness="h_codec.c", defs=["CODEC=" + num], entry="h_revinit",
      enforce=[nm + "_reverse_init"], gen=gen,
      unwindset=["%s_reverse_init_wrapped_for_contract_checking.0:%d" % (nm, {"32": 33, "64": 65, "65": 65, "128": 129}[num])],
      props={"C07": "contract", "C05": "safety", "C06": "safety"}, min_obl=20,
      what="%s_reverse_init establishes the table invariant rev[c]==SPEC_REV(c) for all 256 c from any state satisfying it (literal loop bound, exact unrolling)" % nm)

    G(name="codec%s_roundtrip" % num, harness="h_codec.c", defs=["CODEC=" + num], defs_quick=["CMAX=4096ul"], entry="h_roundtrip",
      replace=[nm + "_encode", nm + "_decode"], gen=gen, props={"C07": "contract"}, min_obl=2, replay={"entry": "w_roundtrip", "unwind": 14},
      what="lemma over the two contracts: decode(encode(x)) has the length the encoder reported and every byte equals the input byte; chunking loses and repeats nothing")
    G(name="codec%s_alphabet" % num, harness="h_codec.c", defs=["CODEC=" + num], entry="h_alphabet", gen=gen,
      props={"C07": "contract"}, min_obl=4,
      what="alphabet lemma: documented character classes, distinct, no NUL/dot, reverse map inverts")
G(name="b32_5to8", harness="h_codec.c", defs=["CODEC=32"], entry="h_5to8", enforce=["b32_5to8"], replay={"entry": "w_5to8", "unwind": 33},
  props={"C07": "contract", "C05": "safety", "C06": "safety"}, what="b32_5to8 is the Base32 alphabet lookup for all int arguments")
G(name="b32_8to5", harness="h_codec.c", defs=["CODEC=32"], entry="h_8to5", enforce=["b32_8to5"], replace=["base32_reverse_init"], replay={"entry": "w_8to5", "unwind": 33},
  props={"C07": "contract", "C05": "safety", "C06": "safety"}, what="b32_8to5 is the Base32 reverse map for all int arguments (incl. negative char values), result 0..31")

# pointer_arithmetic = "pointer relation/difference outside object bounds": the parsers move the
# cursor up to one byte past the end+1 of the datagram and compare before dereferencing; with the
# datagram modelled as an exact-size object that is reported although the real buffer is 64 KB
PARSE_DISCARD = ["pointer_arithmetic"]
PARSE_CHECKS = ["--bounds-check", "--pointer-check", "--div-by-zero-check", "--undefined-shift-check",
                "--signed-overflow-check", "--pointer-primitive-check"]
G(name="readname_loop", harness="h_read.c", entry="h_readname_loop", style="legacy", enforce=["readname_loop"],
  loops="read.inv", loop_fns=["readname_loop_top"], checks=PARSE_CHECKS, replay={"entry": "w_readname", "unwind": 7, "timeout": 200, "enum": {"WLEN": [1, 2, 3, 4, 5, 6]}},
  props={"C12": "all", "C05": "safety", "C06": "safety"}, min_obl=50,
  what="readname_loop on a datagram object of exactly packetlen bytes: no read outside it, writes only dst[0..length), result/cursor ranges, terminates (loop variants); the recursive call is a stub carrying the same contract")
G(name="readname", harness="h_read.c", entry="h_readname", style="legacy", enforce=["readname"], checks=PARSE_CHECKS,
  props={"C12": "all", "C05": "safety", "C06": "safety"}, min_obl=5, what="readname = readname_loop with depth 10")

for fn, pr in (("readshort", ["C12", "C05", "C06"]), ("readlong", ["C12", "C05", "C06"]), ("readdata", ["C12", "C05", "C06"]),
               ("putbyte", ["C10", "C05", "C06"]), ("putshort", ["C10", "C05", "C06"]), ("putlong", ["C10", "C05", "C06"])):
    G(name=fn, harness="h_read.c", entry="h_" + fn, enforce=[fn], props=dict((p, "all") for p in pr), min_obl=5, cost=2,
      what="%s: reads/writes exactly the bytes of its field, value is the big-endian field, cursor advances by the field size" % fn)

G(name="putdata", harness="h_read.c", entry="h_putdata", style="legacy", enforce=["putdata"], props={"C10": "all", "C05": "safety", "C06": "safety"}, cost=2,
  what="putdata copies exactly len bytes to the cursor and advances it (harness style, exact-size objects)")

G(name="readtxtbin", harness="h_read.c", entry="h_readtxtbin", style="legacy", enforce=["readtxtbin"], loops="read.inv", loop_fns=["readtxtbin"],
  checks=PARSE_CHECKS, props={"C12": "all", "C05": "safety", "C06": "safety"}, min_obl=30,
  what="readtxtbin on record data of exactly srcremain bytes: no read outside it, at most dstremain bytes written, cursor inside, terminates")
G(name="puttxtbin", harness="h_read.c", entry="h_puttxtbin", style="legacy", enforce=["puttxtbin"], loops="read.inv", loop_fns=["puttxtbin"],
  checks=PARSE_CHECKS, props={"C10": "all", "C05": "safety", "C06": "safety"}, min_obl=30,
  what="puttxtbin: output tiled by length-prefixed strings of at most 252 bytes, total length exact, never beyond the space, -1 if it does not fit")

G(name="dns_decode_query", harness="h_dns.c", entry="h_dns_decode", defs=["H_QR=QR_QUERY"], style="legacy", enforce=["dns_decode"], loops="dns.inv", loop_fns=["dns_decode"],
  checks=PARSE_CHECKS, discard_cls=PARSE_DISCARD, props={"C12": "all", "C05": "safety"}, min_obl=100, timeout=600, cost=30,
  what="dns_decode, query direction (what the server runs on every datagram): exact-size datagram, arbitrary content")
for tname, cost in (("T_NULL", 20), ("T_PRIVATE", 20), ("T_A", 20), ("T_CNAME", 20), ("T_MX", 200), ("T_SRV", 200), ("T_TXT", 20)):
    # MX/SRV: the SAT/SMT query does not finish (kissat, z3, cvc5: > 15 min; 64 KB names[250][256] with symbolic rows): kept as
    # work in progress, part of NO check (DESIGN 11.7)
    G(name="dns_decode_answer_" + tname, wip=(tname in ("T_MX", "T_SRV")), tier=("thorough" if tname in ("T_MX", "T_SRV") else "quick"), harness="h_dns.c", entry="h_dns_decode", defs=["H_QR=QR_ANSWER", "H_TYPE=" + tname], style="legacy",
      enforce=["dns_decode"], loops="dns.inv", loop_fns=["dns_decode"], checks=PARSE_CHECKS, discard_cls=PARSE_DISCARD,
      props={"C12": "all", "C06": "safety"}, min_obl=100, timeout=600, cost=cost, mem_gb=24,
      what="dns_decode, answer direction (what the client runs on every reply), question type %s (case split on the value the real readshort returns for the type field): exact-size datagram, arbitrary content" % tname)
for tname in ("T_MX", "T_SRV"):
    # the same obligation group on the ROW-SHRUNK text of dns.c (vc: RAW_SHRINK_SETS["dnsnames3"]): names[250][256] -> names[3][256] and
    # the acceptance bound 2500 -> 30 with the comparison operator of the source kept.  This finishes; what it drops is the number of
    # rows (250), stated in evidence (extraction_drops).  Loop contracts: loops/dns_mx.inv (dns.inv with the row count as a parameter).
    G(name="dns_decode_answer_%s_rows3" % tname, harness="h_dns.c", entry="h_dns_decode", defs=["H_QR=QR_ANSWER", "H_TYPE=" + tname, "NAMES_ROWS=3", "VERIF_STRLEN_MEMO=1"], wip=False,
      style="legacy",
      enforce=["dns_decode"], loops="dns_mx.inv", loop_fns=["dns_decode"], checks=PARSE_CHECKS, discard_cls=PARSE_DISCARD, shrink_raw="dnsnames3",
      props={"C12": "all", "C06": "safety"}, min_obl=100, timeout=900, cost=60, mem_gb=24,
      what="dns_decode, answer direction, question type %s (host-name list), on dns.c with the local name table shrunk from 250 to 3 rows and the preference bound from 2500 to 30 (same operator): exact-size datagram, arbitrary content, any number of answer records (loop contracts); the terminator row stays empty, the output loop stays inside the table and inside buf" % tname)
G(name="dns_decode_answer_other", wip=True, tier="thorough", harness="h_dns.c",   # runs out of memory (16 GB): part of no check
   entry="h_dns_decode", defs=["H_QR=QR_ANSWER", "H_CASE=4"], style="legacy",
  enforce=["dns_decode"], loops="dns.inv", loop_fns=["dns_decode"], checks=PARSE_CHECKS, discard_cls=PARSE_DISCARD,
  props={"C12": "all", "C06": "safety"}, min_obl=100, timeout=1500, cost=300, mem_gb=24,
  what="dns_decode, answer direction, every question type other than NULL/PRIVATE/A/CNAME/MX/SRV/TXT")
G(name="dns_get_id", harness="h_dns.c", entry="h_dns_get_id", style="legacy", enforce=["dns_get_id"], checks=PARSE_CHECKS,
  props={"C12": "all", "C05": "safety", "C06": "safety"}, cost=1, what="dns_get_id reads the first two bytes only, 0 for short packets")

G(name="check_topdomain", harness="h_common.c", entry="h_check_topdomain", enforce=["check_topdomain"], style="legacy", unwind=133,
  props={"C17": "all", "C05": "safety", "C06": "safety"}, min_obl=20, timeout=600, cost=60, kind="proof",
  what="check_topdomain(str, allow_wildcard) == reference acceptor for EVERY string of length 0..130 (every longer string is rejected before the loop: covered symbolically up to 130, the loop bound 128 is the function's own); exhaustive unwinding with unwinding assertions")

G(name="query_datalen_b", harness="h_common.c", entry="h_query_datalen", defs=["QMAX=24", "TMAX=12", "NMAX=14"], enforce=["query_datalen"], style="legacy", unwind=26,
  props={"C17": "all", "C05": "safety"}, min_obl=20, timeout=600, cost=100, kind="bounded", bound="query name <= 24 characters without '..', accepted domain <= 12 characters",
  what="query_datalen(q, t) == reference matcher (decision and data length) for every name of at most 24 characters and every accepted plain or wildcard domain of at most 12")

G(name="login_value", harness="h_login.c", entry="h_login_value", enforce=["login_calculate"], style="legacy", unwind=65,
  checks=[], cbmc_flags=["--no-standard-checks"], props={"C19": "all"}, min_obl=1, timeout=1500, timeout_thorough=3600, cost=400, mem_gb=24,
  replay={"entry": "w_login", "unwind": 65, "timeout": 600},
  what="miter: real login_calculate (login.c + md5.c) vs RFC-1321 MD5 of the documented construction, all 2^256 passwords x 2^32 challenges; loops have literal bounds 8/16/32/64, unrolled exactly")
G(name="login_footprint", harness="h_login.c", entry="h_login_footprint", enforce=["login_calculate"], style="legacy", unwind=65,
  discard_cls=[], props={"C19": "all", "C05": "safety", "C06": "safety"}, min_obl=20, timeout=600, cost=30,
  what="login_calculate reads exactly pass[0..32), writes exactly buf[0..16), nothing when buflen < 16; md5.c safety obligations")

for fn, ent, uw in (("fw_query_put", "h_fwq_put", 18), ("fw_query_get", "h_fwq_get", 18), ("fw_query_init", "h_fwq_init", 18), ("fw_query ring lemma", "h_fwq_ring", 18)):
    G(name=ent[2:], harness="h_fwq.c", entry=ent, enforce=[fn], style="legacy", unwind=uw, props={"C20": "all", "C05": "safety"}, min_obl=3, cost=5, timeout=1500,
      what="%s: ring of literal size 16, arbitrary prior state, ghost slot/byte index; loops unrolled exactly" % fn)

for ent, fn, props, what in (
    ("h_init_users", "init_users", {"C18": "all", "C05": "safety"}, "init_users for every server address and /8../30: count, distinct, in-subnet, not server/network/broadcast, flags zero"),
    ("h_find_user_by_ip", "find_user_by_ip", {"C18": "all", "C04": "all", "C05": "safety"}, "find_user_by_ip returns exactly the first live logged-in owner, -1 iff none; table unchanged"),
    ("h_find_available_user", "find_available_user", {"C04": "all", "C03": "all", "C05": "safety"}, "find_available_user never takes a slot active in the last 60 s, resets authentication on the slot it takes, leaves the others unchanged"),
    ("h_all_users_waiting", "all_users_waiting_to_send", {"C05": "safety"}, "all_users_waiting_to_send: safety"),
    ("h_user_setters", "user_switch_codec", {"C04": "all", "C05": "safety"}, "user_switch_codec/user_set_conn_type: range-checked userid, only the named slot")):
    # --nondet-static: function-local statics of user.c (none today) start arbitrary, so a result that depends on hidden
    # state carried over from earlier calls cannot hide behind the initial state
    G(name=ent[2:], harness="h_user.c", entry=ent, enforce=[fn], style="legacy", unwind=33, shrink="user.c", cbmc_flags=["--no-array-field-sensitivity", "--nondet-static"], props=props, min_obl=5, cost=20, timeout=600, what=what)

SRV_FLAGS = ["--no-array-field-sensitivity"]
SRV_SHRINK = dict(shrink="iodined.c", shrink_set="payload64", rss_gb=4)
for uc in (0, 1):
    G(name="srv_check_user_u%d" % uc, harness="h_iodined.c", entry="h_check_user", defs=["H_UID_CASE=%d" % uc], enforce=["check_user_and_ip", "check_authenticated_user_and_ip", "check_authenticated_user_and_ip_and_options"],
      style="legacy", unwind=17, cbmc_flags=SRV_FLAGS, props={"C03": "all", "C04": "all", "C05": "safety"}, min_obl=10, timeout=600, cost=60, mem_gb=24, **SRV_SHRINK,
      what="check_user_and_ip family == the statement's predicate (live, not expired, own source with -c, logged in, options unlocked), both directions, userid case %s" % ("literal 0" if uc == 0 else "any other value"))
    for cmd in "SONIR":
        G(name="srv_cmd_%s_u%d" % (cmd, uc), harness="h_iodined.c", entry="h_cmd_guarded", defs=["H_UID_CASE=%d" % uc, "H_CMD='%s'" % cmd, "STUB_HELPERS=1"], enforce=["handle_null_request"],
          style="legacy", unwind=33, unwindset=(["handle_null_request.3:2047"] if cmd == "R" else []), cbmc_flags=SRV_FLAGS, props={"C03": "all", "C04": "all", "C05": "safety", "C15": "all", "C14": "all"}, min_obl=10, timeout=1500, cost=200, mem_gb=24, **SRV_SHRINK,
          what="handle_null_request, command %s (either letter case), userid case %s: no setting changes / BADIP only unless the named session is live, from its own source and logged in; at most one answer; no tun write; SESSION_WF preserved" % (cmd, "literal 0" if uc == 0 else "any other value"))

for ent, fns, props, what in (
    ("h_send_chunk", ["send_chunk_or_dataless", "save_to_qmem_pingordata", "save_to_dnscache", "get_from_outpacketq"], {"C15": "all", "C14": "all", "C05": "safety"},
     "send_chunk_or_dataless on an arbitrary session: payload <= fragsize, last flag only on the final fragment, fragment number field, one answer (+1 for a remembered duplicate), query consumed, SESSION_WF preserved"),
    ("h_downstream_ack", ["process_downstream_ack"], {"C15": "all", "C05": "safety"}, "process_downstream_ack: only a matching ack advances, by exactly the bytes sent, fragment numbers consecutive"),
    ("h_outpacket_queue", ["save_to_outpacketq", "get_from_outpacketq", "start_new_outpacket"], {"C15": "all", "C01": "all", "C05": "safety"}, "outpacket queue: FIFO of 4, new packets start at fragment 0 with the next sequence number")):
    G(name="srv_" + ent[2:], harness="h_iodined.c", entry=ent, enforce=fns, defs=(["STUB_GETQ=1"] if ent == "h_send_chunk" else []), style="legacy", unwind=33, unwindset=["h_send_chunk.0:6", "h_send_chunk.1:5", "h_downstream_ack.0:6", "h_downstream_ack.1:5", "h_outpacket_queue.0:6", "h_outpacket_queue.1:5"], cbmc_flags=SRV_FLAGS, props=props, min_obl=10, timeout=1500, cost=100, mem_gb=24, what=what, **SRV_SHRINK)

for cmd in "ZY":
    G(name="srv_cmd_%s" % cmd, harness="h_iodined.c", entry="h_cmd_open", defs=["H_CMD='%s'" % cmd, "STUB_HELPERS=1"], enforce=["handle_null_request"],
      style="legacy", unwind=33, cbmc_flags=SRV_FLAGS, props={"C03": "all", "C04": "all", "C05": "safety", "C14": "all"}, min_obl=10, timeout=1500, cost=200, mem_gb=24,
      what="handle_null_request, open probe %s: one answer, no session touched, no tun write" % cmd, **SRV_SHRINK)
G(name="srv_cmd_V", harness="h_iodined.c", entry="h_cmd_version", defs=["H_CMD='V'", "STUB_HELPERS=1"], enforce=["handle_null_request"],
  style="legacy", unwind=33, cbmc_flags=SRV_FLAGS, props={"C03": "all", "C04": "all", "C05": "safety", "C14": "all", "C15": "all"}, min_obl=10, timeout=1500, cost=200, mem_gb=24,
  what="handle_null_request, V: never authenticates; a new challenge clears both login flags; takes only a slot unused or silent > 60 s; fresh session: fragsize 100, DNS mode, empty buffers; one 9-byte answer", **SRV_SHRINK)
for uc in (0, 1):
    G(name="srv_cmd_L_u%d" % uc, harness="h_iodined.c", entry="h_cmd_login", defs=["H_CMD='L'", "H_UID_CASE=%d" % uc, "STUB_HELPERS=1"], enforce=["handle_null_request"],
      style="legacy", unwind=33, cbmc_flags=SRV_FLAGS, props={"C03": "all", "C04": "all", "C05": "safety", "C14": "all", "C19": "all"}, min_obl=10, timeout=1500, cost=200, mem_gb=24,
      what="handle_null_request, L (userid case %d): the login flag rises only for a live session from its own source whose 16 bytes equal login_calculate(password, that session's current seed); nothing else changes; BADIP/BADLEN otherwise" % uc, **SRV_SHRINK)

for cmd, nm in (("P", "ping"), ("D", "data")):
    for uc in (0, 1):
        G(name="srv_cmd_%s_u%d" % (nm, uc), harness="h_iodined.c", entry="h_cmd_stream", defs=["H_CMD='%s'" % cmd, "H_UID_CASE=%d" % uc, "STUB_HELPERS=1", "STUB_CONTRACTS=1"] + (["STUB_CHECKS=1"] if uc else []), enforce=["handle_null_request"],
          style="legacy", unwind=33, cbmc_flags=SRV_FLAGS, props={"C03": "all", "C04": "all", "C05": "safety", "C14": "all", "C16": "all", "C01": "all"}, min_obl=10, timeout=1500, cost=300, mem_gb=24,
          what="handle_null_request, %s (userid case %d), stream helpers replaced by their contracts: token accounting (answers + held <= received + held before), id 0 ignored, nothing without a live authenticated session, cache/qmem hit touches nothing, at most one delivery, SESSION_WF preserved, every send_chunk_or_dataless call site has id != 0" % (nm, uc), **SRV_SHRINK)

# ---- encoding.c (C08) --------------------------------------------------------------------------
G(name="enc_dotify", harness="h_encoding.c", entry="h_dotify", style="legacy", enforce=["inline_dotify"], loops="encoding.inv", loop_fns=["inline_dotify"],
  props={"C08": "all", "C05": "safety", "C06": "safety", "C09": "all"}, min_obl=20, timeout=600, cost=60,
  what="inline_dotify, every string length: character i moves to i + i/57, dots at 57 + 58 m, result e + e/57, nothing behind the terminator written (loop contract, ghost indices)")
G(name="enc_undotify", harness="h_encoding.c", entry="h_undotify", style="legacy", enforce=["inline_undotify"], loops="encoding.inv", loop_fns=["inline_undotify"],
  props={"C08": "all", "C05": "safety"}, min_obl=10, timeout=600, cost=30,
  what="inline_undotify on a buffer of exactly len bytes, every len <= 65536: no access outside, result in 0..len, no dot remains (loop contract)")
G(name="enc_undotify_exh", harness="h_encoding.c", entry="h_undotify_exh", defs=["UNDOT_EXH=64"], style="legacy", enforce=["inline_undotify"], unwind=66, checks=[], cbmc_flags=["--no-standard-checks"], rss_gb=8,
  props={"C08": "all"}, min_obl=3, timeout=1500, cost=200, kind="bounded", bound="text of at most 64 characters",
  what="inline_undotify == 'remove every dot, keep the order' for every text of at most 64 characters (bounded stand-in for the content clause; length, footprint and no-dot-remains are unbounded in enc_undotify)")
for bits in (5, 6, 7):
    G(name="enc_build_hostname_b%d" % bits, harness="h_encoding.c", entry="h_build_hostname", defs=["CBITS=%d" % bits, "STUB_DOTIFY=1"], style="legacy", enforce=["build_hostname"],
      props={"C08": "all", "C06": "safety"}, min_obl=20, timeout=600, cost=60,
      what="build_hostname with a %d-bit codec (encoder and inline_dotify replaced by their contracts): for every limit 100..255, domain 3..128 leaving 24, payload 1..65536: reports what the encoder consumed (>= 1), name = dotted text + '.' + domain, within the limit with a 5-character header, 57-character labels" % bits)
G(name="enc_unpack_data", harness="h_encoding.c", entry="h_unpack_data", style="legacy", enforce=["unpack_data"], loops="encoding.inv", loop_fns=["inline_undotify"],
  props={"C08": "all", "C05": "safety", "C06": "safety"}, min_obl=10, timeout=600, cost=30,
  what="unpack_data: undotify in place (unless the codec eats dots), then the codec's decoder on exactly that text into the caller's buffer")

# ---- tun.c (C13, C06) ---------------------------------------------------------------------------
G(name="tun_setip", harness="h_tun.c", entry="h_tun_setip", style="legacy", enforce=["tun_setip"], loops="tun.inv", loop_fns=["tun_setip"], unwind=70,
  props={"C13": "all", "C06": "safety"}, min_obl=10, timeout=600, cost=60,
  what="tun_setip with two arbitrary NUL-terminated 64-byte strings and an arbitrary int from the login reply, inet_addr unconstrained: at system() both addresses are syntactically valid dotted quads, the netmask text is inet_ntoa's, the interface name is local; arithmetic on the peer's netmask width is defined")
G(name="tun_setmtu", harness="h_tun.c", entry="h_tun_setmtu", style="legacy", enforce=["tun_setmtu"], unwind=70,
  props={"C13": "all", "C06": "safety"}, min_obl=3, timeout=300, cost=5,
  what="tun_setmtu for every unsigned value: the command is run only with a decimal in 201..1500")

for uc in (0, 1):
    G(name="srv_raw_u%d" % uc, harness="h_iodined.c", entry="h_raw_decode", defs=["H_UID_CASE=%d" % uc, "STUB_HELPERS=1", "STUB_CONTRACTS=1", "H_RAW=1"], enforce=["raw_decode", "handle_raw_login", "handle_raw_data", "handle_raw_ping", "send_raw"],
      style="legacy", unwind=33, cbmc_flags=SRV_FLAGS, props={"C03": "all", "C04": "all", "C05": "safety", "C12": "all", "C19": "all", "C14": "all"}, min_obl=10, timeout=1500, cost=200, mem_gb=24,
      what="raw_decode + handle_raw_login/data/ping + send_raw on a datagram of exactly len bytes (userid case %d): raw login only for a live DNS-authenticated session and only with the response for challenge+1, answered with challenge-1, then rebinding and raw mode; raw data/ping only with DNS and raw login from the bound source; nothing else changes; no DNS answer; no read outside the datagram" % uc, **SRV_SHRINK)

# ---- dns.c message builders (C10) ---------------------------------------------------------------
DNSENC = dict(harness="h_dnsenc.c", style="legacy", unwind=5, min_obl=10, timeout=600, cost=40)
G(name="dnsenc_ns_response", entry="h_ns_response", enforce=["dns_encode_ns_response"], props={"C10": "all", "C05": "safety"}, **DNSENC,
  what="dns_encode_ns_response for an arbitrary query object: header flags, counts equal the records present (glue A record and ARCOUNT only for an IPv4 destination), question echo, NS record = pointer owner + 'ns' label + backward pointer into the question name, RDLENGTH 5, exact message length")
G(name="dnsenc_a_response", entry="h_a_response", enforce=["dns_encode_a_response"], props={"C10": "all", "C05": "safety"}, **DNSENC,
  what="dns_encode_a_response: header, counts, question echo, one A record with pointer owner, RDLENGTH 4 and the address, exact message length; -1 without an IPv4 address")
for tname in ("T_NULL", "T_PRIVATE", "T_CNAME", "T_A", "T_TXT"):
    G(name="dnsenc_answer_" + tname, entry="h_encode_answer", defs=["H_TYPE=" + tname, "H_KIND=%d" % {"T_NULL": 0, "T_PRIVATE": 0, "T_CNAME": 1, "T_A": 1, "T_TXT": 2}[tname]], enforce=["dns_encode"], props={"C10": "all", "C09": "all", "C05": "safety"}, **DNSENC,
      what="dns_encode, answer direction, question type %s: header, counts, question echo (id, name, type), one record with pointer owner to offset 12, RDLENGTH equal to the bytes present, exact message length%s" % (
          tname[2:], "; payload copied byte for byte (ghost index)" if tname in ("T_NULL", "T_PRIVATE") else ""))
for tname in ("T_MX", "T_SRV"):
    G(name="dnsenc_answer_" + tname, entry="h_encode_list", defs=["H_TYPE=" + tname, "H_KIND=3", "H_LOOP=1", "LIST_CAP=5", "H_CAP=640"], enforce=["dns_encode"], wip=True, kind="bounded", bound="list of at most 5 bytes = at most 2 host names (record loop unwound 3 times with unwinding assertion)",
      props={"C10": "all", "C09": "all", "C05": "safety"}, **dict(DNSENC, unwind=4, timeout=1500, cost=300, mem_gb=24, rss_gb=8),
      what="dns_encode, answer direction, question type %s, list of at most 2 host names (BOUNDED): header, question echo, ANCOUNT equals the records written, every record (arbitrary ghost position) has pointer owner, echoed type, class IN, preference 10 x position, RDLENGTH equal to the bytes present, lies inside the message; first record follows the question, last record ends the message" % tname[2:])
G(name="dnsenc_query", entry="h_encode_query", enforce=["dns_encode"], props={"C10": "all", "C05": "safety", "C06": "safety"}, **DNSENC,
  what="dns_encode, query direction (client send_query and server forward_query): header, one question with the host name / the query's own name, type, class IN, EDNS0 OPT record present exactly when ARCOUNT is 1, exact message length")

G(name="putname", wip=True, harness="h_putname.c", entry="h_putname", style="legacy", enforce=["putname"], loops="putname.inv", loop_fns=["putname"], spec_incs=["spec/putname.h"], unwind=3,
  props={"C10": "all", "C05": "safety", "C06": "safety"}, min_obl=30, timeout=1500, cost=100,
  what="putname for every name of at most 255 characters (QUERY_NAME_SIZE - 1) and every limit (loop contract, no bound): writes one length byte 1..63 plus the bytes of every strtok token (arbitrary ghost token and byte), contiguously, then the root label; n + 2 bytes exactly unless the name has an empty label (witness position checked); never beyond n + 2 bytes; fails only at a label longer than 63 or with a limit below the length of the name, leaving the cursor unchanged")

# ---- client.c (C06, C09) ------------------------------------------------------------------------------
CLI = dict(harness="h_client.c", style="legacy", unwind=8, timeout=1500, shrink="client.c", shrink_set="client64", cbmc_flags=["--no-array-field-sensitivity"])
G(name="cli_tunnel_dns", entry="h_tunnel_dns", defs=["STUB_TUNNEL=1"], enforce=["tunnel_dns"], props={"C06": "all", "C01": "all"}, min_obl=30, cost=100, **CLI,
  what="client tunnel_dns on arbitrary packet state (invariant: fill levels within capacity) and an arbitrary reply: unmatched replies (id not among the three most recent, wrong first letter, no header) change and deliver nothing; duplicate fragments and fragments after a gap are not appended; appended bytes are exactly the reply's bytes behind the 2-byte header at the fill level (ghost index), never beyond the buffer; tun gets only a successfully inflated packet with zlib's bytes and length, on the last-fragment flag; only a matching ack advances the upstream packet by exactly the bytes sent")
G(name="cli_namedec", entry="h_namedec", enforce=["dns_namedec"], props={"C09": "all", "C06": "safety"}, min_obl=10, cost=30, **CLI,
  what="client dns_namedec for every answer text of 1..1024 characters: letter h/i/j/k (host name) and t/s/u/v (TXT) select Base32/Base64/Base64u/Base128 - the codec the server used for that letter -, exactly the text between letter and suffix is decoded into the caller's buffer, r = raw copy, anything else decodes nothing; result within the output space")

for ent, fns, what in (
    ("h_qmem_data", ["save_to_qmem_pingordata", "save_to_qmem", "answer_from_qmem_data", "answer_from_qmem"], "query memory, data queries: the ring writer stores (type, 4 header characters lower-cased) in the next slot only; a re-delivered copy with any letter case and any DNS id is recognised by answer_from_qmem_data: one illegal answer, query consumed, nothing else touched"),
    ("h_qmem_lookup", ["answer_from_qmem"], "answer_from_qmem on the ping and data memories: hit = one illegal 1-byte answer + query consumed, miss = nothing emitted and no slot (arbitrary ghost slot) matched"),
    ("h_dnscache", ["save_to_dnscache", "answer_from_dnscache"], "answer cache: ring of 4; an identical repeat (same type, strcmp-equal name, any DNS id) is answered exactly once with the stored bytes and length, nothing else touched"),
    ("h_dnscache_miss", ["answer_from_dnscache"], "answer_from_dnscache: miss = nothing emitted, query kept, no valid entry (arbitrary ghost slot) has this type and name; hit = one answer, query consumed")):
    G(name="srv_" + ent[2:], wip=ent.startswith("h_dnscache"), harness="h_iodined.c", entry=ent, enforce=fns, defs=["H_QMEM=1"], style="legacy", unwind=33, unwindset=["verif_strcmp.0:257", "answer_from_dnscache.0:5", "h_dnscache.0:5", "h_dnscache_miss.0:5"], cbmc_flags=SRV_FLAGS,
      props={"C16": "all", "C05": "safety", "C14": "all"}, min_obl=10, timeout=1500, cost=100, mem_gb=24, what=what, **SRV_SHRINK)

# ---- iodined.c: network-facing functions around the dispatcher (C17 dispatch, C10 aux answers, C20 forwarding) ------
NET = dict(harness="h_iodined.c", style="legacy", unwind=33, cbmc_flags=SRV_FLAGS, min_obl=8, timeout=1500, cost=60, mem_gb=24, **SRV_SHRINK)
NETDEFS = ["H_NET=1", "STUB_HELPERS=1", "STUB_CONTRACTS=1"]
G(name="srv_tunnel_dns", entry="h_tunnel_dns", defs=NETDEFS, enforce=["tunnel_dns"], props={"C17": "all", "C10": "all", "C20": "all", "C05": "safety"}, **NET,
  what="server tunnel_dns for an arbitrary decoded query and an arbitrary matcher result: a name outside the tunnel domain reaches no tunnel handler and is forwarded exactly when forwarding is enabled; a name under it is never forwarded; NS queries get the NS answer with the matched offset, A queries for ns./www. the address answer, exactly the tunnel record types reach the dispatcher with the reported data length; at most one handler per datagram")
G(name="srv_forward_query", entry="h_forward_query", defs=NETDEFS, enforce=["forward_query"], props={"C20": "all", "C05": "safety"}, **NET,
  what="forward_query for an arbitrary query: re-encoded as a query from the same query object (id, name, type untouched), the asker's address/length/id remembered BEFORE the destination is rewritten, exactly the encoded bytes sent once on the forwarding socket to 127.0.0.1:bind_port; nothing remembered or sent when encoding fails")
G(name="srv_tunnel_bind", entry="h_tunnel_bind", defs=NETDEFS, enforce=["tunnel_bind"], props={"C20": "all", "C05": "safety", "C12": "all"}, **NET,
  what="tunnel_bind for an arbitrary reply: the id is read from the reply's own bytes/length, the ring is asked for exactly that id; no match => nothing sent to anybody; match => the same bytes and length relayed once to the remembered address on the socket of its family")
G(name="srv_ns_a_request", entry="h_ns_a_request", defs=NETDEFS, enforce=["handle_ns_request", "handle_a_request"], props={"C10": "all", "C05": "safety"}, **NET,
  what="handle_ns_request / handle_a_request: answer built for the received query (NS: with the matched domain part of its own name), glue/address = configured address, placeholder 127.0.0.1 for www, else the address the query was sent to; no address answer without an IPv4 address; exactly the built message sent once to the asker")
NET2 = dict(NET, shrink_set="payload64x2", rss_gb=5, cost=120)
NET2DEFS = NETDEFS + ["VERIF_NSLOTS=2"]
for dest in (-1, 0, 1):
    dn = {-1: "none", 0: "0", 1: "1"}[dest]
    G(name="srv_full_packet_to_%s" % dn, entry="h_full_packet", defs=NET2DEFS + ["H_DEST=%d" % dest], enforce=["handle_full_packet"], props={"C04": "all", "C01": "all", "C14": "all", "C03": "all", "C05": "safety"}, **NET2,
      what="handle_full_packet on a TWO-slot table (sender slot 0, destination by the find_user_by_ip contract: %s): zlib gets exactly the reassembled bytes; a packet that does not inflate is dropped; destination looked up by the inflated packet's destination address; no session => tun gets exactly zlib's bytes/length; a session => never tun, only THAT slot changes (copied/queued as is, or one raw datagram to its address), the other slot untouched; at most one held query of the destination answered; reassembly buffer released" % dn)
    G(name="srv_tunnel_tun_to_%s" % dn, entry="h_tunnel_tun", defs=NET2DEFS + ["H_DEST=%d" % dest], enforce=["tunnel_tun"], props={"C04": "all", "C01": "all", "C14": "all", "C05": "safety"}, **NET2,
      what="server tunnel_tun on a TWO-slot table (owner of the destination address by the find_user_by_ip contract: %s): the session is looked up by the packet's destination address; no owner => dropped, nothing sent or changed; owner t => exactly the bytes read are compressed and handed to slot t only (new downstream packet + at most one held query of t answered, or queued behind the packet in flight, or one raw datagram to t's address), the other slot untouched" % dn)

# ---- iodined.c: the answer writer (C09 stages 1/2, C10) --------------------------------------------------------------
WD = dict(harness="h_writedns.c", style="legacy", unwind=8, cbmc_flags=SRV_FLAGS, min_obl=8, timeout=1500, cost=60, mem_gb=24, shrink="iodined.c", shrink_set="writedns", rss_gb=4)
G(name="wd_nameenc", entry="h_nameenc", enforce=["write_dns_nameenc"], props={"C09": "all", "C10": "all", "C05": "safety"}, **WD,
  what="write_dns_nameenc for every payload of 0..4096 bytes, every downstream codec letter and every buffer of 256..1024 bytes (exact-size object): codec letter h/i/j/k == codec used; the codec is offered 245 characters; result = bytes consumed (>= 1 for a non-empty payload); name = letter + dotted text + separating dot + 2 letters, NUL-terminated, at most 253 characters")
for tname in ("T_CNAME", "T_A", "T_TXT", "T_NULL", "T_PRIVATE", "OTHER"):
    G(name="wd_write_dns_" + tname, tier=("thorough" if tname == "OTHER" else "quick"), entry="h_write_dns", defs=(["H_TYPE=" + tname] if tname != "OTHER" else []) + ["WD_BUF=65536", "WD_TXT=8192"], enforce=["write_dns", "write_dns_nameenc"],
      unwindset=(["verif_real_write_dns.0:1"] if tname == "OTHER" else []),   # the MX/SRV loop is unreachable for other types (its unwinding assertion proves that)
      props={"C09": "all", "C10": "all", "C05": "safety"}, **WD,
      what="write_dns, query type %s, every payload of 0..4096 bytes and codec letter: CNAME/A = one write_dns_nameenc name; TXT = letter t/s/u/v/r + the complete text of the codec named by the letter (raw: payload copied as is); NULL/PRIVATE/other = payload as is; one message built for the query being answered and sent once to the asker" % tname)

# ---- client.c handshake parsers (C06, C13 boundary, C19 call sites) ---------------------------------------------------
HS = dict(CLI, unwind=70, unwindset=["tun_setip.0:67", "tun_setip.1:67"], timeout=1500, cost=80, min_obl=10)
for ent, fns, props, what in (
    ("h_hs_login", ["handshake_login"], {"C06": "all", "C13": "all", "C19": "all"}, "handshake_login with an arbitrary reply of up to 4096 bytes: the reply is a NUL-terminated string inside its buffer before it is parsed, the two address fields handed to tun_setip are NUL-terminated within 65 bytes, the response is computed from the password and exactly the challenge received, success only if both configuration steps succeeded"),
    ("h_hs_version", ["handshake_version"], {"C06": "all"}, "handshake_version with an arbitrary reply: every index read is below the reply length, no undefined shift"),
    ("h_hs_switch", ["handshake_switch_codec", "handshake_switch_downenc", "handshake_try_lazy", "handshake_lazyoff"], {"C06": "all"}, "codec / downstream codec / lazy-mode switches with an arbitrary reply of up to 4096 bytes: the terminator written behind the reply stays inside the buffer"),
    ("h_hs_setfrag", ["handshake_set_fragsize", "fragsize_check"], {"C06": "all"}, "handshake_set_fragsize and fragsize_check with an arbitrary reply: reads stay below the reply length"),
    ("h_hs_tests", ["handshake_upenctest", "handshake_downenctest", "handshake_qtypetest"], {"C06": "all"}, "codec and query-type tests with an arbitrary reply of up to 4096 bytes and every test pattern of 1..59 characters: the comparison loops read only below the reply length"),
    ("h_hs_raw", ["handshake_raw_udp", "send_raw_udp_login", "send_raw"], {"C06": "all", "C19": "all"}, "handshake_raw_udp: address replies of exactly 5 / 17 bytes copied into the socket address, raw login carries the response for challenge + 1, raw mode only after comparing at least 20 received bytes with the response for challenge - 1")):
    G(name="cli_" + ent[2:], entry=ent, defs=["STUB_HANDSHAKE=1"], enforce=fns, props=props, what=what, **HS)
G(name="cli_tunnel_tun", entry="h_tunnel_tun", defs=["STUB_TUNNEL=1"], enforce=["tunnel_tun", "send_raw_data", "send_raw"], props={"C01": "all", "C06": "safety"}, min_obl=20, cost=60, **CLI,
  what="client tunnel_tun: while an upstream packet is in flight a packet read to drain the tun device leaves it untouched (position AND every data byte, ghost index) and sends nothing; otherwise exactly the bytes read are compressed, the packet gets zlib's length, fragment 0, offset 0, next sequence number, and its first fragment (DNS) or one raw frame is sent")
G(name="common_recent_seqno", harness="h_common.c", entry="h_recent_seqno", enforce=["recent_seqno"], style="legacy", unwind=6, props={"C01": "all", "C05": "safety", "C06": "safety"}, min_obl=1, cost=2,
  what="recent_seqno for all 8 x 8 three-bit sequence numbers: 1 exactly for the current number and the three before it modulo 8 (the window that makes late copies of old fragments count as old)")
G(name="cli_read_dns", entry="h_read_dns", defs=["STUB_READDNS=1"], enforce=["read_dns_withq"], loops="client.inv", loop_fns=["read_dns_withq"], props={"C06": "all", "C09": "all", "C01": "all"}, min_obl=30, cost=60,
  **dict(CLI, unwind=4),
  what="client read_dns_withq for every reply buffer of 2..capacity bytes (exact-size object), arbitrary datagram, decoder results per their contracts: result -1..buflen, nothing written outside the caller's buffer or the local datagram buffer; MX/SRV reassembly loop closed by a loop contract (parts decoded inside the answer text, decoded bytes never overtake the text); raw mode: only a successfully inflated packet reaches tun")
G(name="cli_send_chunk", entry="h_send_chunk", defs=["STUB_SENDERS=1", "STUB_TUNNEL=1"], enforce=["send_chunk"], props={"C08": "all", "C01": "all", "C06": "safety"}, min_obl=10, cost=30, **CLI,
  what="client send_chunk for an arbitrary packet state with bytes left to send: build_hostname is offered exactly the unsent rest of the packet with the tunnel domain, the negotiated codec and the length limit; sentlen is what the builder reports; the packet itself is unchanged; the 5-character header is userid, sequence/fragment numbers, the acknowledged downstream position and the last-fragment flag (set exactly when the rest of the packet is carried) as the protocol document lays them out")
G(name="cli_send_packet", entry="h_send_packet", defs=["STUB_SENDERS=1", "STUB_TUNNEL=1"], enforce=["send_packet"], props={"C08": "all", "C06": "safety"}, min_obl=5, cost=10, **CLI,
  what="client send_packet (login, version, fragment-size and ping messages): the whole message is offered to build_hostname in Base32 with the tunnel domain and the length limit; the name is command letter + data part")
G(name="cli_send_probe", entry="h_send_probe", defs=["STUB_SENDERS=1", "STUB_TUNNEL=1"], enforce=["send_fragsize_probe"], props={"C08": "all", "C06": "safety"}, min_obl=5, cost=10, **CLI,
  what="client send_fragsize_probe for every fragment size and every userid byte the server may have sent: name built like a data chunk, header r + userid/size digits + dummy CMC; arithmetic on the server-supplied userid is defined")

LEVELS = {}
TRUSTED_BASE = ["CBMC 6.11.0 (goto-cc front end, goto-instrument --dfcc contract instrumentation, symex)",
                "kissat (SAT back end)", "gcc -E (expansion of spec macros inside loop contracts)"]
SRV_TRUST = ["gcc -E text of iodined.c with must-fire shrink rules (evidence.groups[].extraction_drops)", "hand-written contract stubs of helpers inside the dispatcher/net groups (each cites the group that proves the helper; DESIGN 11.1)", "typed memcpy model for copies into the session slot, bounds-asserting havoc model elsewhere", "recorders for sendto/write_tun/syslog; time() = one arbitrary instant per event"]
CLI_TRUST = ["gcc -E text of client.c with must-fire shrink rules (evidence.groups[].extraction_drops)", "contract stubs of dns_decode/unpack_data/decoders/build_hostname/handshake_waitdns/read_dns_withq inside client groups (each proved in its own group)", "models of sscanf (terminator + field widths), zlib compress2/uncompress (lengths only), recvfrom/recv/select"]
PROP_TRUST = {"C01": SRV_TRUST + CLI_TRUST + ["zlib is external: only successfully inflated buffers reach tun, adler32 itself is not analysed"],
              "C03": SRV_TRUST + ["login_calculate replaced by a recorder in the dispatcher groups (its value is the C19 miter)"],
              "C04": SRV_TRUST + ["find_user_by_ip contract (16-slot proof) used as a stub on the two-slot routing groups"],
              "C05": SRV_TRUST, "C06": CLI_TRUST, "C14": SRV_TRUST, "C15": SRV_TRUST, "C16": SRV_TRUST,
              "C08": ["encoder replaced by its C07 contract inside build_hostname", "build_hostname replaced by its contract inside the client's name builders"] + CLI_TRUST,
              "C09": SRV_TRUST + CLI_TRUST + ["encoders replaced by their C07 contract (length, maximal prefix, alphabet without NUL and dot) inside write_dns*"],
              "C10": SRV_TRUST + ["dns_encode* replaced by recorders inside handle_ns/a_request, write_dns, forward_query"],
              "C13": ["recorders for snprintf/system/inet_ntoa; inet_addr unconstrained", "sscanf model at the handshake_login boundary"],
              "C12": ["stub contracts of readname/readtxtbin inside dns_decode (each proved in its own group)", "CBMC builtin memset; bounds-asserting havoc model of memcpy/strncpy/strlen (models/libc.h)"],
              "C17": ["CBMC ctype models (ASCII)", "reference acceptor/matcher spec/domain.h"],
              "C18": ["gcc -E + sed shrink rules for the user.c TU", "assumed contract snprintf+inet_addr", "calloc model"],
              "C19": ["spec/md5.h (RFC 1321, self-checked on the RFC vectors)"],
              "C20": ["CBMC builtin memcpy/memset for the fixed-size ring entries"] + SRV_TRUST}
ASSUMPTIONS = ["A1 CBMC/kissat are sound", "A11 only the Linux #ifdef branches are compiled (flags from src/osflags)"]
SRV_ASSUME = ["A5 server state is ONE session slot (two for the routing groups); statements about other slots are not made", "packet payload capacity 64 bytes in the verified text (order relations between buffer capacities kept by the rules)", "debug == 0: diagnostic output is not executed", "function-static counters start at their initial values (only user.c groups run with --nondet-static)"]
CLI_ASSUME = ["every 64 KB buffer of client.c has 64 bytes in the verified text", "handshake replies: at most 4096 bytes, arbitrary content", "function-static counters start at their initial values"]
PROP_ASSUME = {"C01": SRV_ASSUME + CLI_ASSUME + ["A-C01-1 adler32 rejects mis-assembled streams (external, probabilistic)", "A-C01-2 composition over lossy/duplicating/reordering histories is not mechanised"],
               "C03": SRV_ASSUME, "C04": SRV_ASSUME, "C05": SRV_ASSUME, "C06": CLI_ASSUME, "C14": SRV_ASSUME, "C15": SRV_ASSUME, "C16": SRV_ASSUME,
               "C08": CLI_ASSUME + ["hostname_maxlen >= domain length + 24 (the property's own domain)"],
               "C09": SRV_ASSUME + CLI_ASSUME + ["payloads of 0..4096 bytes (every call site of write_dns)", "the whole chain and the MX/SRV list path are not composed (DESIGN 6/C09, 11.7)"],
               "C10": SRV_ASSUME + ["putname and the MX/SRV record loop are not part of the check (work in progress)"],
               "C13": ["only the Linux branch of tun.c", "the server's own tun_setip call (operator input) is outside the statement"],
               "C12": ["datagram length 0..65536 (recvfrom buffer size)", "q is never NULL (every call site passes a query object)", "answer buffer is NULL or 2..65536 bytes"],
               "C17": ["A4 glibc ctype on negative char agrees with the ASCII models", "query names <= 255 characters (QUERY_NAME_SIZE)"],
               "C18": ["A6 user.c TU with untouched array members shrunk", "A9 netmask range 8..30 enforced by main()"],
               "C19": ["A9 password zero-padded to 32 bytes by main()"],
               "C20": ["distinct ids among the 16 most recent forwarded queries (the property's own precondition)", "read_dns stores sizeof(struct sockaddr_storage) as the asker's address length"] + SRV_ASSUME}
EXPLAIN = {}
