/* Contracts for the four codecs (C07; safety obligations serve C05/C06).
 * Attached to forward declarations; the definitions come from the real file. */
#include <stddef.h>
#include "spec/codec.h"
#ifndef CMAX
#define CMAX 65536ul   /* the largest size any caller passes */
#endif
extern size_t g_j[3];   /* ghost: three arbitrary character positions */
extern size_t g_o;      /* ghost: an arbitrary output byte position */
extern size_t g_k;      /* ghost: an arbitrary consumed character position */

static int C_ENCODE(char *buf, size_t *buflen, const void *data, size_t size)
__CPROVER_requires(size <= CMAX)
__CPROVER_requires(__CPROVER_is_fresh(buflen, sizeof(size_t)) && *buflen <= 2 * CMAX)
__CPROVER_requires(__CPROVER_is_fresh(buf, *buflen + 1))
__CPROVER_requires(__CPROVER_is_fresh(data, size))
__CPROVER_assigns(*buflen, __CPROVER_object_upto(buf, *buflen + 1))
__CPROVER_ensures(ENC_POST_LEN(__CPROVER_return_value, __CPROVER_old(*buflen), *buflen, size))
__CPROVER_ensures(buf[__CPROVER_return_value] == 0)
__CPROVER_ensures(g_j[0] < (size_t)__CPROVER_return_value ==> ENC_CHAR_OK(buf, data, size, g_j[0]))
__CPROVER_ensures(g_j[1] < (size_t)__CPROVER_return_value ==> ENC_CHAR_OK(buf, data, size, g_j[1]))
__CPROVER_ensures(g_j[2] < (size_t)__CPROVER_return_value ==> ENC_CHAR_OK(buf, data, size, g_j[2]))
;

/* representation invariant of the lazily built reverse table */
#define TABLE_OK __CPROVER_forall { int c_; (0 <= c_ && c_ < 256) ==> (unsigned)C_REVTAB[c_] == C_REV(c_) }
#define TABLE_INV (reverse_init == 0 || TABLE_OK)

static void C_REVINIT(void)
__CPROVER_requires(TABLE_INV)
__CPROVER_assigns(reverse_init, __CPROVER_object_whole(C_REVTAB))
__CPROVER_ensures(reverse_init != 0 && TABLE_OK)
;

static int C_DECODE(void *buf, size_t *buflen, const char *str, size_t slen)
__CPROVER_requires(TABLE_INV)
__CPROVER_requires(slen <= 2 * CMAX)
__CPROVER_requires(__CPROVER_is_fresh(buflen, sizeof(size_t)) && *buflen <= 2 * CMAX)
__CPROVER_requires(__CPROVER_is_fresh(buf, *buflen + 1))
__CPROVER_requires(__CPROVER_is_fresh(str, slen))
__CPROVER_assigns(__CPROVER_object_upto(buf, *buflen + 1), VERIF_REVTAB_FRAME)
__CPROVER_ensures(reverse_init != 0 && TABLE_OK)
__CPROVER_ensures(DEC_POST_LEN(__CPROVER_return_value, *buflen, str, slen))
__CPROVER_ensures(((unsigned char *)buf)[__CPROVER_return_value] == 0)
__CPROVER_ensures(g_k < SPEC_ENCLEN(CBITS, __CPROVER_return_value) ==> str[g_k] != 0)
__CPROVER_ensures(g_o < (size_t)__CPROVER_return_value ==> DEC_BYTE_OK(buf, str, g_o))
;

#if CODEC == 32
/* single-character helpers used for userids and header nibbles */
int b32_5to8(int in)
__CPROVER_assigns()
__CPROVER_ensures((unsigned)__CPROVER_return_value == C_ALPHA(((unsigned)in) & 31u))
;
int b32_8to5(int in)
__CPROVER_requires(TABLE_INV)
__CPROVER_assigns(reverse_init, __CPROVER_object_whole(C_REVTAB))
__CPROVER_ensures(reverse_init != 0 && TABLE_OK)
__CPROVER_ensures(__CPROVER_return_value >= 0 && __CPROVER_return_value < 32)
__CPROVER_ensures((unsigned)__CPROVER_return_value == C_REV((unsigned char)in))
;
#endif
