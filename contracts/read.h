/* Contracts for src/read.c (C12 footprint, C05/C06 safety, pieces of C10).
 * The datagram is an object of EXACTLY packetlen bytes: any read outside
 * [packet, packet+packetlen) is a failed pointer obligation (DESIGN 6/C12).
 *
 * The clauses are macros because they are used three ways: in the declared contracts that
 * callers are verified against, in the proof harness of the function itself (assume PRE,
 * assert POST), and in the stub that stands for the recursive call. */
#ifndef VERIF_CONTRACT_READ_H
#define VERIF_CONTRACT_READ_H
#include <stddef.h>
#include <stdint.h>
extern size_t g_m;
#define PKT_OFF(p) ((long)__CPROVER_POINTER_OFFSET(p))
#define IN_PKT(p, packet, packetlen) (__CPROVER_same_object(p, packet) && PKT_OFF(p) >= 0 && PKT_OFF(p) <= (long)(packetlen))

/* readname_loop / readname */
#define RN_PRE(packet, packetlen, srcv, length, loop) \
	((packetlen) >= 0 && (packetlen) <= 65536 && IN_PKT(srcv, packet, packetlen) && \
	 (length) >= 3 && (length) <= 256 && (loop) <= 10)
/* src0off: offset of *src on entry */
#define RN_POST(ret, packet, packetlen, srcv, src0off, length) \
	((ret) >= 0 && (size_t)(ret) <= (length) && __CPROVER_same_object(srcv, packet) && \
	 PKT_OFF(srcv) >= (long)(src0off) && PKT_OFF(srcv) <= (long)(packetlen) + 1)

int readname(char *packet, int packetlen, char **src, char *dst, size_t length)
__CPROVER_requires(__CPROVER_is_fresh(packet, (packetlen) > 0 ? (packetlen) : 1))
__CPROVER_requires(__CPROVER_is_fresh(src, sizeof(char *)))
__CPROVER_requires(RN_PRE(packet, packetlen, *src, length, 10))
__CPROVER_requires(__CPROVER_is_fresh(dst, length))
__CPROVER_assigns(*src, __CPROVER_object_upto(dst, length))
__CPROVER_ensures(RN_POST(__CPROVER_return_value, packet, packetlen, *src, __CPROVER_old(PKT_OFF(*src)), length))
;

/* fixed-width readers/writers: footprint = exactly the bytes of the field */
int readshort(char *packet, char **src, unsigned short *dst)
__CPROVER_requires(__CPROVER_is_fresh(src, sizeof(char *)) && __CPROVER_is_fresh(*src, 2) && __CPROVER_is_fresh(dst, sizeof(unsigned short)))
__CPROVER_assigns(*src, *dst)
__CPROVER_ensures(*src == __CPROVER_old(*src) + 2 && __CPROVER_return_value == 2)
__CPROVER_ensures(*dst == (unsigned short)((((unsigned char *)__CPROVER_old(*src))[0] << 8) | ((unsigned char *)__CPROVER_old(*src))[1]))
;
int readlong(char *packet, char **src, uint32_t *dst)
__CPROVER_requires(__CPROVER_is_fresh(src, sizeof(char *)) && __CPROVER_is_fresh(*src, 4) && __CPROVER_is_fresh(dst, sizeof(uint32_t)))
__CPROVER_assigns(*src, *dst)
__CPROVER_ensures(*src == __CPROVER_old(*src) + 4 && __CPROVER_return_value == 4)
__CPROVER_ensures(*dst == (((uint32_t)((unsigned char *)__CPROVER_old(*src))[0] << 24) | ((uint32_t)((unsigned char *)__CPROVER_old(*src))[1] << 16) |
	((uint32_t)((unsigned char *)__CPROVER_old(*src))[2] << 8) | (uint32_t)((unsigned char *)__CPROVER_old(*src))[3]))
;
int readdata(char *packet, char **src, char *dst, size_t len)
__CPROVER_requires(len <= 65536 && __CPROVER_is_fresh(src, sizeof(char *)) && __CPROVER_is_fresh(*src, len) && __CPROVER_is_fresh(dst, len))
__CPROVER_assigns(*src, __CPROVER_object_upto(dst, len))
__CPROVER_ensures(*src == __CPROVER_old(*src) + len && (size_t)__CPROVER_return_value == len)
__CPROVER_ensures(g_m < len ==> dst[g_m] == __CPROVER_old(*src)[g_m])
;
int putbyte(char **dst, unsigned char value)
__CPROVER_requires(__CPROVER_is_fresh(dst, sizeof(char *)) && __CPROVER_is_fresh(*dst, 1))
__CPROVER_assigns(*dst, __CPROVER_object_upto(*dst, 1))
__CPROVER_ensures(*dst == __CPROVER_old(*dst) + 1 && __CPROVER_return_value == 1 && (unsigned char)__CPROVER_old(*dst)[0] == value)
;
int putshort(char **dst, unsigned short value)
__CPROVER_requires(__CPROVER_is_fresh(dst, sizeof(char *)) && __CPROVER_is_fresh(*dst, 2))
__CPROVER_assigns(*dst, __CPROVER_object_upto(*dst, 2))
__CPROVER_ensures(*dst == __CPROVER_old(*dst) + 2 && __CPROVER_return_value == 2)
__CPROVER_ensures((unsigned char)__CPROVER_old(*dst)[0] == (value >> 8) && (unsigned char)__CPROVER_old(*dst)[1] == (value & 0xff))
;
int putlong(char **dst, uint32_t value)
__CPROVER_requires(__CPROVER_is_fresh(dst, sizeof(char *)) && __CPROVER_is_fresh(*dst, 4))
__CPROVER_assigns(*dst, __CPROVER_object_upto(*dst, 4))
__CPROVER_ensures(*dst == __CPROVER_old(*dst) + 4 && __CPROVER_return_value == 4)
__CPROVER_ensures((unsigned char)__CPROVER_old(*dst)[0] == (value >> 24) && (unsigned char)__CPROVER_old(*dst)[1] == ((value >> 16) & 0xff) &&
	(unsigned char)__CPROVER_old(*dst)[2] == ((value >> 8) & 0xff) && (unsigned char)__CPROVER_old(*dst)[3] == (value & 0xff))
;
int putdata(char **dst, const char *data, size_t len)
__CPROVER_requires(len <= 65536 && __CPROVER_is_fresh(dst, sizeof(char *)) && __CPROVER_is_fresh(*dst, len) && __CPROVER_is_fresh(data, len))
__CPROVER_assigns(*dst, __CPROVER_object_upto(*dst, len))
__CPROVER_ensures(*dst == __CPROVER_old(*dst) + len && (size_t)__CPROVER_return_value == len)
//PD __CPROVER_ensures(g_m < len ==> __CPROVER_old(*dst)[g_m] == data[g_m])
;
#endif
