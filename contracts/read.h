/* Contracts for src/read.c (C12 footprint, C05/C06 safety, pieces of C10).
 * The datagram is an object of EXACTLY packetlen bytes: any read outside
 * [packet, packet+packetlen) is a failed pointer obligation (DESIGN 6/C12).
 *
 * The clauses are macros because they are used three ways: in the declared contracts that
 * callers are verified against, in the proof harness of the function itself (assume PRE,
 * assert POST), and in the stub that stands for the recursive call. */
#ifndef VERIF_CONTRACT_READ_H
#define VERIF_CONTRACT_READ_H
#include <stddef.h>
#include <stdint.h>
#define PKT_OFF(p) ((long)__CPROVER_POINTER_OFFSET(p))
#define IN_PKT(p, packet, packetlen) (__CPROVER_same_object(p, packet) && PKT_OFF(p) >= 0 && PKT_OFF(p) <= (long)(packetlen))

/* readname_loop / readname */
#define RN_PRE(packet, packetlen, srcv, length, loop) \
	((packetlen) >= 0 && (packetlen) <= 65536 && IN_PKT(srcv, packet, packetlen) && \
	 (length) >= 3 && (length) <= 256 && (loop) <= 10)
/* src0off: offset of *src on entry */
#define RN_POST(ret, packet, packetlen, srcv, src0off, length) \
	((ret) >= 0 && (size_t)(ret) <= (length) && __CPROVER_same_object(srcv, packet) && \
	 PKT_OFF(srcv) >= (long)(src0off) && PKT_OFF(srcv) <= (long)(packetlen) + 1)

int readname(char *packet, int packetlen, char **src, char *dst, size_t length)
__CPROVER_requires(__CPROVER_is_fresh(packet, (packetlen) > 0 ? (packetlen) : 1))
__CPROVER_requires(__CPROVER_is_fresh(src, sizeof(char *)))
__CPROVER_requires(RN_PRE(packet, packetlen, *src, length, 10))
__CPROVER_requires(__CPROVER_is_fresh(dst, length))
__CPROVER_assigns(*src, __CPROVER_object_upto(dst, length))
__CPROVER_ensures(RN_POST(__CPROVER_return_value, packet, packetlen, *src, __CPROVER_old(PKT_OFF(*src)), length))
;
#endif
