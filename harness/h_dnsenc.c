/* src/dns.c message builders under contract (C10): dns_encode, dns_encode_ns_response,
 * dns_encode_a_response.  Harness style: arbitrary query object and payload, the real builder
 * runs, then the emitted bytes are checked against the RFC 1035 layout written out here
 * (header flags and counts, question, answer records with compression pointer to offset 12,
 * RDLENGTH == bytes actually present, id/name/type echo).
 *
 * putname and puttxtbin are replaced by stubs carrying their contract (each proved on the real
 * function in its own group: putname_*, puttxtbin); the stub records where it was called and how
 * far it advanced so that the layout can be stated over the record.  putbyte/putshort/putlong/
 * putdata are the real ones. */
#include <string.h>
#include <strings.h>
#include <stdlib.h>
#include <stdint.h>
#include <err.h>
#include <arpa/nameser.h>
#include "common.h"
#include "lib/verif.h"
#define VERIF_KEEP_MEMSET 1         /* memset(buf, 0, buflen) with a literal size: CBMC's exact memset */
#include "models/libc.h"
/* strlen for this harness: the strings handed to the builders are never modified during a call, so the
 * length of a given string is ONE value per run (an uninterpreted function of the pointer) that satisfies
 * the model's constraints; repeated strlen() calls on the same string agree, as in reality. */
size_t __CPROVER_uninterpreted_strlen(const char *s);
static const char *g_nul_ptr;
static size_t verif_strlen_det(const char *s)
{
	size_t n = __CPROVER_uninterpreted_strlen(s);
	size_t rem = __CPROVER_OBJECT_SIZE(s) - __CPROVER_POINTER_OFFSET(s);
	__CPROVER_assert(__CPROVER_r_ok(s, 1), "strlen: argument readable");
	_Bool byptr = g_nul_ptr && __CPROVER_same_object(s, g_nul_ptr) && g_nul_ptr >= s && *g_nul_ptr == 0;   /* a byte the harness knows to be NUL */
	__CPROVER_assert(s[rem - 1] == 0 || (g_nul_hint < rem && s[g_nul_hint] == 0) || byptr, "strlen: a NUL exists inside the object (no over-read)");
	__CPROVER_assume(n < rem && s[n] == 0 && (g_s >= n || s[g_s] != 0));
	if (g_nul_hint < rem && s[g_nul_hint] == 0)
		__CPROVER_assume(n <= g_nul_hint);
	if (byptr)
		__CPROVER_assume(n <= (size_t)(g_nul_ptr - s));
	return n;
}
#undef strlen
#define strlen verif_strlen_det
#define verif_strlen verif_strlen_det

#ifndef H_CAP
#define H_CAP 1024
#endif
int nondet_int(void);
_Bool nondet_bool(void);
unsigned short nondet_ushort(void);

/* Effect of a stub that writes n bytes at the cursor: the messages are built strictly left to right, so the
 * stubs make EVERYTHING from the cursor to the end of the buffer arbitrary (an over-approximation of "n
 * arbitrary bytes"; a slice havoc at a symbolic offset with symbolic length costs gigabytes). */
static char g_nd[H_CAP];   /* one scratch object for all stubs (fewer candidate objects for pointers havoced by a loop contract) */
#define HAVOC_FROM(p, n) { __CPROVER_assert(__CPROVER_w_ok(p, n), "stub: n bytes writable at the cursor"); __CPROVER_havoc_object(g_nd); __CPROVER_array_replace((char *)(p), g_nd); }
/* memcpy for this harness (putdata's copy of the NULL payload into the message): same contract as
 * models/libc.h - extents asserted, content exact at one arbitrary ghost index - with the tail havoc */
static void *verif_memcpy_tail(void *dst, const void *src, size_t n)
{
	if (n == 0)
		return dst;
	__CPROVER_assert(__CPROVER_r_ok(src, n), "memcpy: source readable for n bytes");
	{
		unsigned char keep = 0;
		_Bool has = g_m < n;
		if (has)
			keep = ((const unsigned char *)src)[g_m];
		HAVOC_FROM(dst, n);
		if (has)
			((unsigned char *)dst)[g_m] = keep;
	}
	return dst;
}
#undef memcpy
#define memcpy verif_memcpy_tail
/* ---- contract stubs -------------------------------------------------------------------------- */
#define PN_MAX 3
static int g_pn_calls;
static struct { const char *host; char *at; size_t adv; size_t n; } g_pn[PN_MAX];
static int g_rr;                       /* ghost: index of one arbitrary MX/SRV record */
/* contract of putname (proved on the real function in group putname): for a name of n characters
 * whose labels are 1..63 characters (no empty label), given a limit of at least n: writes the wire form -
 * exactly n + 2 bytes (1 for the empty name), the last one the root label 0 - at the cursor and advances it;
 * never fails.  Names are in that domain at every call site: question names come from readname (labels
 * <= 63) and the property excludes labels containing '.', host names from build_hostname /
 * write_dns_nameenc have 57-character labels (C08), the tunnel domain is checked by check_topdomain (C17). */
static int verif_putname_stub(char **buf, size_t buflen, const char *host)
{
	size_t n = verif_strlen(host);
	__CPROVER_assert(n <= 255, "putname at call site: the name has at most 255 characters");
#ifdef H_LOOP
	/* lists: domain restriction - the wire form of the whole list fits the capacity, so the space left is never
	 * below the next name (at the call site: 64 KB for a list built from at most 4096 payload bytes; when
	 * it does not fit putname fails and dns_encode, which ignores its result, would emit a record
	 * without a name - outside the domain, reported as an observation in DESIGN.md) */
	if (g_pn_calls > 0) __CPROVER_assume(n <= 255 && buflen >= n);
#endif
	__CPROVER_assert(buflen >= n, "putname at call site: limit is at least the length of the name");
	__CPROVER_assert(__CPROVER_w_ok(*buf, n + 2), "putname at call site: room for the wire form of the name (n + 2 bytes)");
	size_t adv = n ? n + 2 : 1;
	HAVOC_FROM(*buf, adv);
	(*buf)[adv - 1] = 0;
	{
		int k = g_pn_calls;
#ifdef H_LOOP
		/* MX/SRV: call 0 is the question, call r+1 is record r; remember the question and record g_rr */
		if (k > 0) k = (k == g_rr + 1) ? 1 : 2;
#endif
		if (k < PN_MAX) { g_pn[k].host = host; g_pn[k].at = *buf; g_pn[k].adv = adv; g_pn[k].n = n; }
	}
	g_pn_calls++;
	*buf += adv;
	return (int)adv - 1;
}
static char *g_txt_at; static size_t g_txt_len, g_txt_from; static _Bool g_txt_fit;
/* contract of puttxtbin (group puttxtbin): -1 and nothing usable if it does not fit, otherwise
 * fromremain + ceil(fromremain/252) bytes tiled by length-prefixed strings */
static int verif_puttxtbin_stub(char **buf, size_t bufremain, const char *from, size_t fromremain)
{
	size_t total = fromremain + (fromremain + 251) / 252;
	__CPROVER_assert(fromremain == 0 || __CPROVER_r_ok(from, fromremain), "puttxtbin at call site: source readable");
	__CPROVER_assert(bufremain <= 65536 && (bufremain == 0 || __CPROVER_w_ok(*buf, bufremain)), "puttxtbin at call site: bufremain bytes writable at the cursor");
	g_txt_at = *buf; g_txt_from = fromremain;
	if (total > bufremain) {
		size_t k = (size_t)nondet_int();             /* the real function stops after the k whole 252-byte strings that fit */
		size_t part = 253 * k;
		__CPROVER_assume(k <= fromremain / 252 && part <= bufremain);
		if (part) HAVOC_FROM(*buf, part);
		*buf += part;
		g_txt_len = part;
		g_txt_fit = 0;
		return -1;
	}
	if (total) HAVOC_FROM(*buf, total);
	*buf += total;
	g_txt_len = total;
	g_txt_fit = 1;
	return (int)total;
}
void warnx(const char *fmt, ...) { }
static int verif_strcasecmp(const char *a, const char *b) { return nondet_int(); }

#include <read.c>
#define putname verif_putname_stub
#define puttxtbin verif_puttxtbin_stub
#define strcasecmp verif_strcasecmp
#include <dns.c>
#undef putname
#undef puttxtbin
#undef strcasecmp

#include "spec/dnsmsg.h"

/* Message buffer: an object of H_CAP bytes of which the builder is told `g_buflen` (any value up to H_CAP,
 * including sizes that are too small for the message).  The call sites pass 4096 (client) and 65536
 * (server); the builders use the capacity only in the CHECKLEN comparisons and the initial memset, and a
 * 64 KB array written at symbolic offsets is beyond CBMC (14 GB, no result), so the capacity domain of
 * these proofs is 0..H_CAP - stated in the evidence as the domain, not hidden. */
static char g_buf[H_CAP];
static size_t g_buflen;
static struct query g_q;

static void any_query(void)
{
	__CPROVER_havoc_object(&g_q);
	g_q.name[255] = 0;
	g_nul_hint = 255;
	g_nul_ptr = &g_q.name[255];
	g_pn_calls = 0;
	g_txt_len = 0;
	g_buflen = (size_t)nondet_int();
	/* at least 540: room for header, a 255-character question name and one record holding another name, so that
	 * putname's limit argument (capacity left) is never below the length of the name it is given - the
	 * domain in which putname cannot fail for names with labels of 1..63 characters (see group putname) */
	__CPROVER_assume(g_buflen >= 540 && g_buflen <= sizeof(g_buf));
}
#define OFF(p) ((long)((const char *)(p) - g_buf))
/* the question section as every builder writes it: name at offset 12 (the stub's call 0 with the
 * query's own name), then type and class IN */
#define QUESTION_OK(qend) (g_pn_calls >= 1 && g_pn[0].host == g_q.name && OFF(g_pn[0].at) == 12 && (qend) == 12 + (long)g_pn[0].adv + 4 && \
	U16(g_buf, 12 + g_pn[0].adv) == g_q.type && U16(g_buf, 12 + g_pn[0].adv + 2) == 1)

/* ---- NS answer for the tunnel domain ------------------------------------------------------------ */
void h_ns_response(void)
{
	any_query();
	static char topdomain[130];
	__CPROVER_havoc_object(topdomain);
	topdomain[129] = 0;
	size_t toff = (size_t)nondet_int();              /* handle_ns_request passes q->name + topdomain_offset */
	__CPROVER_assume(toff <= 255);
	char *td = nondet_bool() ? topdomain : g_q.name + toff;
	int r = dns_encode_ns_response(g_buf, g_buflen, &g_q, td);
	__CPROVER_assert(r >= -1 && r <= (int)g_buflen, "result is -1, 0 or a length inside the buffer");
	if (r > 0) {
		VERIF_REACH();
		long a = 12 + (long)g_pn[0].adv + 4;        /* start of the answer record */
		_Bool v4 = g_q.destination.ss_family == AF_INET;
		__CPROVER_assert(HDR_ID(g_buf) == g_q.id && HDR_QR(g_buf) == 1 && HDR_OPCODE(g_buf) == 0 && HDR_AA(g_buf) == 1 && HDR_TC(g_buf) == 0 && HDR_RD(g_buf) == 0 && HDR_RA_Z_RCODE(g_buf) == 0, "NS reply header: id echoed, authoritative answer, no error");
		__CPROVER_assert(QUESTION_OK(a), "NS reply question: the query's name at offset 12, its type, class IN");
		__CPROVER_assert(HDR_QD(g_buf) == 1 && HDR_AN(g_buf) == 1 && HDR_NS(g_buf) == 0, "NS reply counts: one question, one answer, no authority records");
		__CPROVER_assert(HDR_AR(g_buf) == (v4 ? 1 : 0), "NS reply ARCOUNT equals the number of additional records present (glue A record only for an IPv4 destination)");
		__CPROVER_assert(r == a + 12 + 5 + (v4 ? 16 : 0), "NS reply length = header + question + NS record + optional glue record");
		__CPROVER_assert(U16(g_buf, a) == 0xc00c && U16(g_buf, a + 2) == g_q.type && U16(g_buf, a + 4) == 1 && U16(g_buf, a + 10) == 5, "NS record: owner is a pointer to the question name, type echoed, class IN, RDLENGTH 5 = label 'ns' + pointer");
		__CPROVER_assert(U8(g_buf, a + 12) == 2 && U8(g_buf, a + 13) == 'n' && U8(g_buf, a + 14) == 's' && (U16(g_buf, a + 15) & 0xc000) == 0xc000, "NS record data: label \"ns\" followed by a compression pointer");
		{
			/* the pointer targets the tunnel domain inside the question name: offset 12 + (strlen(name) - strlen(domain)),
			 * which the function accepts only if the character before it is a dot, i.e. a label boundary */
			long tgt = U16(g_buf, a + 15) & 0x3fff;
			__CPROVER_assert(tgt >= 12 && tgt <= 12 + (long)g_pn[0].n && tgt < a - 4, "NS pointer points backwards into the question name");
			__CPROVER_assert(tgt == 12 || g_q.name[tgt - 13] == '.', "NS pointer targets a label boundary: the question name starts there or the preceding character of the dotted name is a dot");
		}
		if (v4) {
			const unsigned char *ip = (const unsigned char *)&((struct sockaddr_in *)&g_q.destination)->sin_addr.s_addr;
			long g = a + 17;
			__CPROVER_assert(U16(g_buf, g) == (0xc000 | (a + 12)) && U16(g_buf, g + 2) == T_A && U16(g_buf, g + 4) == 1 && U16(g_buf, g + 10) == 4, "glue record: owner points at ns.<domain> in the answer, type A, class IN, RDLENGTH 4");
			__CPROVER_assert(U8(g_buf, g + 12) == ip[0] && U8(g_buf, g + 13) == ip[1] && U8(g_buf, g + 14) == ip[2] && U8(g_buf, g + 15) == ip[3], "glue record carries the destination address");
		}
	}
	VERIF_REACH();
}

/* ---- A answer for ns.<domain> / www.<domain> ----------------------------------------------------- */
void h_a_response(void)
{
	any_query();
	int r = dns_encode_a_response(g_buf, g_buflen, &g_q);
	__CPROVER_assert(r >= -1 && r <= (int)g_buflen, "result is -1, 0 or a length inside the buffer");
	__CPROVER_assert(g_q.destination.ss_family == AF_INET || r == -1, "no A reply without an IPv4 address");
	if (r > 0) {
		VERIF_REACH();
		long a = 12 + (long)g_pn[0].adv + 4;
		const unsigned char *ip = (const unsigned char *)&((struct sockaddr_in *)&g_q.destination)->sin_addr.s_addr;
		__CPROVER_assert(HDR_ID(g_buf) == g_q.id && HDR_QR(g_buf) == 1 && HDR_OPCODE(g_buf) == 0 && HDR_AA(g_buf) == 1 && HDR_TC(g_buf) == 0 && HDR_RD(g_buf) == 0 && HDR_RA_Z_RCODE(g_buf) == 0, "A reply header: id echoed, authoritative answer, no error");
		__CPROVER_assert(QUESTION_OK(a), "A reply question: the query's name at offset 12, its type, class IN");
		__CPROVER_assert(HDR_QD(g_buf) == 1 && HDR_AN(g_buf) == 1 && HDR_NS(g_buf) == 0 && HDR_AR(g_buf) == 0, "A reply counts: one question, one answer, nothing else");
		__CPROVER_assert(r == a + 16, "A reply length = header + question + one 16-byte record");
		__CPROVER_assert(U16(g_buf, a) == 0xc00c && U16(g_buf, a + 2) == g_q.type && U16(g_buf, a + 4) == 1 && U16(g_buf, a + 10) == 4, "A record: owner is a pointer to the question name, type echoed, class IN, RDLENGTH 4");
		__CPROVER_assert(U8(g_buf, a + 12) == ip[0] && U8(g_buf, a + 13) == ip[1] && U8(g_buf, a + 14) == ip[2] && U8(g_buf, a + 15) == ip[3], "A record carries the address");
	}
	VERIF_REACH();
}

/* ---- tunnel answers (what write_dns emits) -------------------------------------------------------- */
#ifndef H_TYPE
#define H_TYPE T_NULL
#endif
#ifndef H_KIND      /* record layout class of H_TYPE: 0 raw (NULL, PRIVATE), 1 host name (CNAME, A), 2 TXT, 3 list of names (MX, SRV); the T_* names are enum constants, unusable in #if */
#define H_KIND 0
#endif
#define ANSWER_HDR_OK() M_ANSWER_HDR_OK(g_buf, &g_q)
#define RR_HDR_OK(a, type) M_RR_HDR_OK(g_buf, a, type)

void h_encode_answer(void)
{
	any_query();
	size_t datalen = (size_t)nondet_int();
	__CPROVER_assume(datalen <= 65536);
#if H_KIND == 1
	static char data[1024];                     /* write_dns: cnamebuf[1024], NUL-terminated name of at most 255 characters */
	__CPROVER_havoc_object(data);
	data[255] = 0;
	__CPROVER_assume(datalen == sizeof(data));
#else
	char *data = malloc(datalen);               /* exactly the payload */
#endif
	/* the seven question types that reach write_dns (tunnel_dns's switch), one group each */
	unsigned short type = H_TYPE;
	g_q.type = type;
	int r = dns_encode(g_buf, g_buflen, &g_q, QR_ANSWER, data, datalen);
	__CPROVER_assert(r >= 0 && r <= (int)g_buflen, "result is 0 or a length inside the buffer");
	if (r > 0) {
		VERIF_REACH();
		long a = 12 + (long)g_pn[0].adv + 4;
		__CPROVER_assert(ANSWER_HDR_OK(), "answer header: id echoed, response + authoritative, one question, no authority/additional records");
		__CPROVER_assert(QUESTION_OK(a), "answer question: the query's name at offset 12, its type, class IN");
		__CPROVER_assert(HDR_AN(g_buf) == 1, "ANCOUNT equals the one record present");
#if H_KIND == 1
		__CPROVER_assert(RR_HDR_OK(a, T_CNAME), "CNAME record (also in answer to an A question): pointer owner, class IN, TTL 0");
		__CPROVER_assert(g_pn_calls == 2 && g_pn[1].host == data && OFF(g_pn[1].at) == a + 12, "record data is the wire form of the encoded host name");
		__CPROVER_assert(U16(g_buf, a + 10) == g_pn[1].adv && r == a + 12 + (long)g_pn[1].adv, "RDLENGTH equals the bytes of the name; the message ends there");
#elif H_KIND == 2
		__CPROVER_assert(RR_HDR_OK(a, T_TXT), "TXT record: pointer owner, type, class IN, TTL 0");
		__CPROVER_assert(OFF(g_txt_at) == a + 12 && g_txt_from == datalen, "record data is the TXT tiling of the payload (all of it if it fits the capacity, else the whole 252-byte strings that fit)");
		__CPROVER_assert(U16(g_buf, a + 10) == g_txt_len && r == a + 12 + (long)g_txt_len, "RDLENGTH equals the tiled bytes; the message ends there");
		__CPROVER_assert(g_txt_fit || datalen + (datalen + 251) / 252 > g_buflen - (size_t)(a + 12), "the payload is cut only when its tiling exceeds the capacity left");
#else
		__CPROVER_assert(RR_HDR_OK(a, type), "NULL/PRIVATE record: pointer owner, echoed type, class IN, TTL 0");
		__CPROVER_assert(U16(g_buf, a + 10) == datalen && r == a + 12 + (long)datalen, "RDLENGTH equals the payload length; the message ends there");
		__CPROVER_assert(!(g_m < datalen) || (unsigned char)g_buf[a + 12 + g_m] == (unsigned char)data[g_m], "record data is the payload, byte for byte");
#endif
	}
	VERIF_REACH();
}

/* ---- MX / SRV answers: a list of host names, one record each ------------------------------------------------
 * BOUNDED: the record loop is unwound (at most 3 names).  A loop contract for it was written and abandoned:
 * with the cursor and the list pointer havoced at the loop head CBMC ran out of 30 GB in propositional
 * reduction even with a trivial invariant (DESIGN 12). */
#ifdef H_LOOP
#ifndef LIST_CAP
#define LIST_CAP 7          /* bounded stand-in: a list of at most 7 bytes holds at most 3 names */
#endif
void h_encode_list(void)
{
	any_query();
	size_t datalen = (size_t)nondet_int();
	__CPROVER_assume(datalen >= 2 && datalen <= 65536);
	static char data[LIST_CAP];                 /* the list: names of at most 255 characters, each NUL-terminated, closed by an empty name; nothing behind it is read */
	__CPROVER_havoc_object(data);
	__CPROVER_assume(datalen <= LIST_CAP);
	__CPROVER_assume(data[datalen - 1] == 0 && data[datalen - 2] == 0);
	/* putname writes the root label and its own length byte without counting them against the limit: 2 bytes
	 * of slack beyond the capacity the builder is told (dns_encode's CHECKLEN(0) then rejects the message) */
	__CPROVER_assume(g_buflen <= sizeof(g_buf) - 16);
	g_rr = nondet_int();
	__CPROVER_assume(g_rr >= 0);
	g_q.type = H_TYPE;
	int r = dns_encode(g_buf, g_buflen, &g_q, QR_ANSWER, data, datalen);
	__CPROVER_assert(r >= 0 && r <= (int)g_buflen, "result is 0 or a length inside the capacity");
	if (r > 0) {
		VERIF_REACH();
		long a = 12 + (long)g_pn[0].adv + 4;
		int nrec = g_pn_calls - 1;
		__CPROVER_assert(ANSWER_HDR_OK(), "answer header: id echoed, response + authoritative, one question, no authority/additional records");
		__CPROVER_assert(QUESTION_OK(a), "answer question: the query's name at offset 12, its type, class IN");
		__CPROVER_assert(nrec >= 1 && HDR_AN(g_buf) == nrec, "ANCOUNT equals the number of records written (one per name in the list)");
		if (g_rr < nrec) {
			/* record number g_rr (arbitrary): starts LIST_FIX bytes before its name */
			long ro = OFF(g_pn[1].at) - LIST_FIX(H_TYPE);
			__CPROVER_assert(LIST_REC_OK(g_buf, ro, H_TYPE, g_rr, g_pn[1].adv), "every record: pointer owner to offset 12, echoed type, class IN, TTL 0, preference 10 x position (SRV: weight 10, port 5060), RDLENGTH equal to the bytes present");
			__CPROVER_assert(ro >= a && ro + LIST_FIX(H_TYPE) + (long)g_pn[1].adv <= r, "every record lies between the question and the end of the message");
			__CPROVER_assert(g_rr > 0 || ro == a, "the first record follows the question directly");
			__CPROVER_assert(g_rr < nrec - 1 || ro + LIST_FIX(H_TYPE) + (long)g_pn[1].adv == r, "the message ends with the last record");
			__CPROVER_assert(__CPROVER_same_object(g_pn[1].host, data), "every record's name is taken from the list");
		}
	}
	VERIF_REACH();
}
#endif

/* ---- queries (client send_query, server forward_query) --------------------------------------------- */
void h_encode_query(void)
{
	any_query();
	static char host[1024];                     /* client: hostname buffers hold at most 255 characters + NUL */
	__CPROVER_havoc_object(host);
	host[255] = 0;
	_Bool own = nondet_bool();                  /* forward_query passes q->name itself */
	const char *name = own ? g_q.name : host;
	size_t n = verif_strlen(name);
	dnsc_use_edns0 = nondet_int();
	int r = dns_encode(g_buf, g_buflen, &g_q, QR_QUERY, name, n);
	__CPROVER_assert(r >= 0 && r <= (int)g_buflen, "result is 0 or a length inside the buffer");
	if (r > 0) {
		VERIF_REACH();
		long e = 12 + (long)g_pn[0].adv + 4;
		__CPROVER_assert(HDR_ID(g_buf) == g_q.id && HDR_QR(g_buf) == 0 && HDR_OPCODE(g_buf) == 0 && HDR_AA(g_buf) == 0 && HDR_TC(g_buf) == 0 && HDR_RD(g_buf) == 1 && HDR_RA_Z_RCODE(g_buf) == 0, "query header: id, standard query, recursion desired");
		__CPROVER_assert(g_pn_calls == 1 && g_pn[0].host == name && OFF(g_pn[0].at) == 12 && U16(g_buf, 12 + g_pn[0].adv) == g_q.type && U16(g_buf, 12 + g_pn[0].adv + 2) == 1, "question: the host name at offset 12, the query's type, class IN");
		__CPROVER_assert(HDR_QD(g_buf) == 1 && HDR_AN(g_buf) == 0 && HDR_NS(g_buf) == 0 && HDR_AR(g_buf) == (dnsc_use_edns0 ? 1 : 0), "counts: one question; ARCOUNT 1 exactly when the OPT record is present");
		__CPROVER_assert(r == e + (dnsc_use_edns0 ? 11 : 0), "length = header + question + optional 11-byte OPT record");
		if (dnsc_use_edns0)
			__CPROVER_assert(U8(g_buf, e) == 0 && U16(g_buf, e + 1) == 41 && U16(g_buf, e + 3) == 4096 && U16(g_buf, e + 5) == 0 && U16(g_buf, e + 7) == 0x8000 && U16(g_buf, e + 9) == 0, "EDNS0 OPT record: root owner, type 41, payload size 4096, DO bit, RDLENGTH 0");
	}
	VERIF_REACH();
}
