/* src/iodined.c under contract: request handlers on single-slot server state (DESIGN 4.4).
 *
 * Harness style: state and datagram-derived inputs are arbitrary (up to the representation
 * invariant SESSION_WF), the real function body runs, callees that have their own proof are
 * replaced by stubs that carry their contract and record their effect in ghost variables,
 * postconditions are assertions over the ghost record and the slot.
 *
 * The slot index is made a literal by case split: the functions that decode the userid from
 * the request (b32_8to5, unpack_data) are stubs returning a harness-chosen value; case A pins
 * it to 0 (the one existing slot), case B lets it be any other value. A u B covers every value
 * the real decoders can return (their range is proved in their own groups).
 */
#define VERIF_REACH() __CPROVER_assert(0, "VERIF_REACH: code after the call is reachable (must fail)")

/* ---- redirect calls to helpers defined inside iodined.c to stubs, keeping the definitions ---- */
/* write_dns(int fd, ...) is the definition/prototype; every call passes dns_fd or fd */
#define WDSEL_int verif_real_write_dns(int
#define WDSEL_dns_fd verif_stub_write_dns(dns_fd
#define WDSEL_fd verif_stub_write_dns(fd
#define write_dns(a, b, c, d, e) WDSEL_##a, b, c, d, e)
#ifdef STUB_HELPERS
/* In the dispatcher groups the stream helpers are replaced: by a contract stub (P/data groups) or,
 * for commands that can never reach them, by a stub asserting exactly that (which also keeps
 * symex from expanding those branches). Definitions are kept under the name verif_real_*. */
#define SCSEL_int verif_real_send_chunk_or_dataless(int
#define SCSEL_dns_fd verif_stub_send_chunk_or_dataless(dns_fd
#define send_chunk_or_dataless(a, b, c) SCSEL_##a, b, c)
#define FPSEL_int verif_real_handle_full_packet(int
#define FPSEL_tun_fd verif_stub_handle_full_packet(tun_fd
#define handle_full_packet(a, b, c) FPSEL_##a, b, c)
#define PASEL_int verif_real_process_downstream_ack(int
#define PASEL_userid verif_stub_process_downstream_ack(userid
#define process_downstream_ack(a, b, c) PASEL_##a, b, c)
#define ADSEL_int verif_real_answer_from_dnscache(int
#define ADSEL_dns_fd verif_stub_answer_from_dnscache(dns_fd
#define answer_from_dnscache(a, b, c) ADSEL_##a, b, c)
#define AQSEL_int verif_real_answer_from_qmem(int
#define AQSEL_dns_fd verif_stub_answer_from_qmem(dns_fd
#define answer_from_qmem(a, b, c, d, e, f) AQSEL_##a, b, c, d, e, f)
#endif
#ifdef STUB_CHECKS
/* userid case "any value but 0" of the stream commands: the three session checks are replaced by
 * their contract for that case (proved on the real functions in group srv_check_user_u1:
 * a userid outside the table makes each of them return 1) */
#define CASEL_int verif_real_check_authenticated_user_and_ip(int
#define CASEL_userid verif_stub_check_foreign(userid
#define check_authenticated_user_and_ip(a, b) CASEL_##a, b)
#endif
#ifdef STUB_GETQ
#define GQSEL_int verif_real_get_from_outpacketq(int
#define GQSEL_userid verif_stub_get_from_outpacketq(userid
#define get_from_outpacketq(a) GQSEL_##a)
#endif
#ifdef H_NET
/* network-facing functions around the dispatcher (tunnel_dns, forward_query, tunnel_bind, handle_ns/a_request,
 * handle_full_packet, tunnel_tun): calls between them are redirected to recorders carrying the callee's contract;
 * each real body is reachable under the name verif_real_* */
#define RDSEL_int verif_real_read_dns(int
#define RDSEL_dns_fd verif_stub_read_dns(dns_fd
#define read_dns(a, b, c, d) RDSEL_##a, b, c, d)
#define HNSEL_int verif_real_handle_null_request(int
#define HNSEL_tun_fd verif_stub_handle_null_request(tun_fd
#define handle_null_request(a, b, c, d, e) HNSEL_##a, b, c, d, e)
#define NSSEL_int verif_real_handle_ns_request(int
#define NSSEL_dns_fd verif_stub_handle_ns_request(dns_fd
#define handle_ns_request(a, b, c) NSSEL_##a, b, c)
#define ARSEL_int verif_real_handle_a_request(int
#define ARSEL_dns_fd verif_stub_handle_a_request(dns_fd
#define handle_a_request(a, b, c) ARSEL_##a, b, c)
#define FQSEL_int verif_real_forward_query(int
#define FQSEL_bind_fd verif_stub_forward_query(bind_fd
#define forward_query(a, b) FQSEL_##a, b)
#if defined(VERIF_NSLOTS) && VERIF_NSLOTS == 2
/* routing groups: the outpacket helpers are replaced by their contract (proved in group srv_outpacket_queue) */
#define SNSEL_int verif_real_start_new_outpacket(int
#define SNSEL_userid verif_stub_start_new_outpacket(userid
#define SNSEL_touser verif_stub_start_new_outpacket(touser
#define start_new_outpacket(a, b, c) SNSEL_##a, b, c)
#define SQSEL_int verif_real_save_to_outpacketq(int
#define SQSEL_userid verif_stub_save_to_outpacketq(userid
#define SQSEL_touser verif_stub_save_to_outpacketq(touser
#define save_to_outpacketq(a, b, c) SQSEL_##a, b, c)
static void verif_stub_start_new_outpacket(int userid, char *data, int datalen);
static int verif_stub_save_to_outpacketq(int userid, char *data, int datalen);
#endif
#define recvfrom verif_recvfrom
#define uncompress verif_uncompress
#define compress2 verif_compress2
#define inet_addr verif_inet_addr
struct query; struct dnsfd;
static int verif_stub_read_dns(int dns_fd, struct dnsfd *dns_fds, int tun_fd, struct query *q);
static void verif_stub_handle_null_request(int tun_fd, int dns_fd, struct dnsfd *dns_fds, struct query *q, int domain_len);
static void verif_stub_handle_ns_request(int dns_fd, struct query *q, int topdomain_offset);
static void verif_stub_handle_a_request(int dns_fd, struct query *q, int fakeip);
static void verif_stub_forward_query(int bind_fd, struct query *q);
#endif
#define strchr verif_strchr
#define main iodined_main
#define time verif_time
#define rand verif_rand
#define syslog verif_syslog
#define sendto verif_sendto
#define strdup verif_strdup
#define free verif_free
#define inet_ntoa verif_inet_ntoa
#define snprintf verif_snprintf
#define memcpy verif_memcpy_t
#define strcmp verif_strcmp
#define strlen verif_strlen
#define fprintf verif_fprintf

#ifdef STUB_GETQ
static int verif_stub_get_from_outpacketq(int userid);
#endif
#ifdef STUB_CHECKS
struct query;
static int verif_stub_check_foreign(int userid, struct query *q)
{
	__CPROVER_assert(userid != 0, "stub contract applies to the case userid != 0 only");
	return 1;
}
#endif
/* identity on the userid taken from the request; the harness case-splits on its value here */
#ifndef H_UID_CASE
#define H_UID_CASE 0
#endif
static int verif_uid(int x)
{
#if H_UID_CASE == 0
	__CPROVER_assume(x == 0);
	return 0;
#else
	__CPROVER_assume(x != 0);
	return x;
#endif
}
#ifdef STUB_HELPERS
struct query; struct dnsfd;
static int verif_stub_send_chunk_or_dataless(int dns_fd, int userid, struct query *q);
static void verif_stub_handle_full_packet(int tun_fd, struct dnsfd *dns_fds, int userid);
static void verif_stub_process_downstream_ack(int userid, int down_seq, int down_frag);
static int verif_stub_answer_from_dnscache(int dns_fd, int userid, struct query *q);
static int verif_stub_answer_from_qmem(int dns_fd, struct query *q, unsigned char *qmem_cmc, unsigned short *qmem_type, int qmem_len, unsigned char *cmc_to_check);
#endif
#ifdef VERIF_SHRUNK_TU
#include VERIF_SHRUNK_TU      /* gcc -E iodined.c with the packet payload capacity shrunk (see evidence: extraction_drops) */
#include VERIF_SHRUNK_MACROS  /* the object-like macros of the same TU that the harness refers to */
#define offsetof(t, m) __builtin_offsetof(t, m)
#else
#include <iodined.c>
#endif
/* ---- ghost state ----------------------------------------------------------------------------- */
static time_t g_now;
static int g_answers;                 /* number of write_dns calls */
static unsigned char g_pay[12];       /* first bytes of the last payload */
static int g_paylen;
static unsigned short g_ans_id[4];
static char g_ans_enc[4];
static int g_tun_writes, g_raw_sends, g_sendto;
static int g_login_seed, g_login_calls, g_login_seed2;
static unsigned char g_login_out[16], g_login_out2[16];
size_t g_m;
static const void *g_cpy_dst, *g_cpy_src; static size_t g_cpy_n; static int g_cpy_calls;
static int g_in_cpy_calls; static size_t g_in_cpy_off, g_in_cpy_n; static const void *g_in_cpy_src, *g_unp_buf;      /* ghost: copy into the upstream reassembly buffer */

int nondet_int(void);
unsigned nondet_unsigned(void);
long nondet_long(void);
size_t nondet_size_t(void);
unsigned char nondet_uchar(void);
_Bool nondet_bool(void);

time_t verif_time(time_t *t) { return g_now; }
int verif_rand(void) { int r = nondet_int(); __CPROVER_assume(r >= 0); return r; }
void verif_syslog(int pri, const char *fmt, ...) { }
char *verif_strdup(const char *s) { static char b[32]; return b; }
void verif_free(void *p) { }
char *verif_inet_ntoa(struct in_addr a) { static char b[16]; b[15] = 0; return b; }
int verif_fprintf(FILE *f, const char *fmt, ...) { return 0; }
int verif_snprintf(char *buf, size_t n, const char *fmt, ...)
{
	int r = nondet_int();
	__CPROVER_assume(r >= 7 && r <= 45);     /* "a.b.c.d-a.b.c.d-mtu-bits" */
	__CPROVER_assert(__CPROVER_w_ok(buf, n) && n > 45, "snprintf destination");
	__CPROVER_havoc_slice(buf, 46);
	return r;
}
/* memcpy model for this TU.  A byte-level havoc of a member of the 414 KB session slot makes
 * CBMC rewrite the whole object, so copies INTO the slot are modelled member by member:
 *   - whole struct query / sockaddr_storage: typed assignment (exact);
 *   - partial copy into an address member (fromlen bytes): the first 28 bytes (sockaddr_in6) exact,
 *     the padding behind them arbitrary;
 *   - payload arrays (packet data, cached answers): bounds asserted, the member becomes arbitrary
 *     (over-approximation: also bytes outside the copied range);
 * everything else: bounds asserted, destination range arbitrary, one ghost byte exact. */
#ifdef VERIF_SHRUNK_TU
#ifndef VERIF_NSLOTS
#define VERIF_NSLOTS 1
#endif
struct tun_user users[VERIF_NSLOTS];
#define slot users[0]
#else
struct tun_user slot;
#endif
/* the payload of a packet buffer becomes arbitrary: typed struct assignment, scalar fields kept */
static void verif_any_payload(struct packet *p)
{
	struct packet np;                    /* np.data is arbitrary */
	np.len = p->len; np.sentlen = p->sentlen; np.offset = p->offset; np.seqno = p->seqno; np.fragment = p->fragment;
	*p = np;
}
#define ANY_ROW(k) { char nd_[4096]; __CPROVER_array_replace(SL.dnscache_answer[k], nd_); }
static void verif_addr_copy(struct sockaddr_storage *member, const void *src, size_t n)
{
	struct sockaddr_storage t;            /* arbitrary */
	unsigned char *tb = (unsigned char *)&t;
	const unsigned char *ob = (const unsigned char *)member, *sb = (const unsigned char *)src;
	size_t i;
	for (i = 0; i < 28; i++)
		tb[i] = i < n ? sb[i] : ob[i];
	*member = t;
}
#define IN_MEMBER(off, m) ((off) >= offsetof(struct tun_user, m) && (off) < offsetof(struct tun_user, m) + sizeof(users[0].m))
void *verif_memcpy_t(void *dst, const void *src, size_t n)
{
	if (n == 0)
		return dst;
	__CPROVER_assert(__CPROVER_r_ok(src, n), "memcpy: source readable for n bytes");
	__CPROVER_assert(__CPROVER_w_ok(dst, n), "memcpy: destination writable for n bytes");
	if (__CPROVER_same_object(dst, &slot)) {      /* (with the 1-slot table, &slot is the table itself) */
		size_t off = __CPROVER_POINTER_OFFSET(dst);
		g_cpy_dst = dst; g_cpy_src = src; g_cpy_n = n; g_cpy_calls++;      /* ghost: last copy into a session member */
#if defined(VERIF_SHRUNK_TU) && VERIF_NSLOTS > 1
		/* the session table is one object: slot index and offset inside the slot, both literals at every call site */
		size_t sidx = off / sizeof(struct tun_user);
		off = off % sizeof(struct tun_user);
#define SL users[sidx]
#else
#define SL slot
#endif
		/* the offset is a literal at every call site, so exactly one of these is expanded */
		if (off == offsetof(struct tun_user, q)) { __CPROVER_assert(n == sizeof(struct query), "whole-query copy"); SL.q = *(const struct query *)src; }
		else if (off == offsetof(struct tun_user, q_sendrealsoon)) { __CPROVER_assert(n == sizeof(struct query), "whole-query copy"); SL.q_sendrealsoon = *(const struct query *)src; }
		else if (off == offsetof(struct tun_user, dnscache_q[0])) { __CPROVER_assert(n == sizeof(struct query), "whole-query copy"); SL.dnscache_q[0] = *(const struct query *)src; }
		else if (off == offsetof(struct tun_user, dnscache_q[1])) { __CPROVER_assert(n == sizeof(struct query), "whole-query copy"); SL.dnscache_q[1] = *(const struct query *)src; }
		else if (off == offsetof(struct tun_user, dnscache_q[2])) { __CPROVER_assert(n == sizeof(struct query), "whole-query copy"); SL.dnscache_q[2] = *(const struct query *)src; }
		else if (off == offsetof(struct tun_user, dnscache_q[3])) { __CPROVER_assert(n == sizeof(struct query), "whole-query copy"); SL.dnscache_q[3] = *(const struct query *)src; }
		else if (off == offsetof(struct tun_user, host)) verif_addr_copy(&SL.host, src, n);
		else if (off == offsetof(struct tun_user, q.from)) verif_addr_copy(&SL.q.from, src, n);
		else if (off == offsetof(struct tun_user, q.from2)) verif_addr_copy(&SL.q.from2, src, n);
		else if (off == offsetof(struct tun_user, q_sendrealsoon.from)) verif_addr_copy(&SL.q_sendrealsoon.from, src, n);
		else if (off == offsetof(struct tun_user, q_sendrealsoon.from2)) verif_addr_copy(&SL.q_sendrealsoon.from2, src, n);
		else if (IN_MEMBER(off, inpacket.data)) { g_in_cpy_calls++; g_in_cpy_off = off - offsetof(struct tun_user, inpacket.data); g_in_cpy_n = n; g_in_cpy_src = src; verif_any_payload(&SL.inpacket); }
		else if (IN_MEMBER(off, outpacket.data)) verif_any_payload(&SL.outpacket);
		else if (IN_MEMBER(off, outpacketq[0].data)) verif_any_payload(&SL.outpacketq[0]);
		else if (IN_MEMBER(off, outpacketq[1].data)) verif_any_payload(&SL.outpacketq[1]);
		else if (IN_MEMBER(off, outpacketq[2].data)) verif_any_payload(&SL.outpacketq[2]);
		else if (IN_MEMBER(off, outpacketq[3].data)) verif_any_payload(&SL.outpacketq[3]);
		else if (IN_MEMBER(off, dnscache_answer[0])) ANY_ROW(0)
		else if (IN_MEMBER(off, dnscache_answer[1])) ANY_ROW(1)
		else if (IN_MEMBER(off, dnscache_answer[2])) ANY_ROW(2)
		else if (IN_MEMBER(off, dnscache_answer[3])) ANY_ROW(3)
		else if (n <= 4 && IN_MEMBER(off, qmemping_cmc)) { size_t k, b = off - offsetof(struct tun_user, qmemping_cmc); for (k = 0; k < 4; k++) if (k < n) SL.qmemping_cmc[b + k] = ((const unsigned char *)src)[k]; }
		else if (n <= 4 && IN_MEMBER(off, qmemdata_cmc)) { size_t k, b = off - offsetof(struct tun_user, qmemdata_cmc); for (k = 0; k < 4; k++) if (k < n) SL.qmemdata_cmc[b + k] = ((const unsigned char *)src)[k]; }
		else __CPROVER_assert(0, "memcpy into a session member that has no model");
	} else if (n <= 16) {
		size_t k;
		for (k = 0; k < 16; k++)
			if (k < n)
				((char *)dst)[k] = ((const char *)src)[k];
	} else {
		unsigned char keep = 0;
		_Bool has = g_m < n;
		size_t k;
		if (has)
			keep = ((const unsigned char *)src)[g_m];
		__CPROVER_havoc_slice(dst, n);
		if (has)
			((unsigned char *)dst)[g_m] = keep;
		for (k = 0; k < 8; k++)
			if (k < n)
				((char *)dst)[k] = ((const char *)src)[k];
		if (__CPROVER_OBJECT_SIZE(dst) == 512 && __CPROVER_POINTER_OFFSET(dst) == 0) {
			/* the copy of the query name into handle_null_request's `in`: at least two bytes are
			 * always copied (asserted) */
			__CPROVER_assert(n >= 2, "name copy: at least the command letter and one more character");
			((char *)dst)[0] = ((const char *)src)[0];
			((char *)dst)[1] = ((const char *)src)[1];
		}
	}
	return dst;
}
#ifdef H_QMEM
/* exact strcmp for the cache lemmas: names are at most 255 characters + NUL (loop unrolled with an unwinding assertion) */
int verif_strcmp(const char *a, const char *b)
{
	size_t i;
	for (i = 0; i < 256; i++) {
		if (a[i] != b[i]) return (unsigned char)a[i] < (unsigned char)b[i] ? -1 : 1;
		if (a[i] == 0) return 0;
	}
	return 0;
}
#else
/* ghost: did the code compare a name with the name of a held query and find them equal? */
static _Bool g_eq_q, g_eq_qs;
int verif_strcmp(const char *a, const char *b)
{
	int r = nondet_int();
	if (r == 0 && (b == slot.q.name || a == slot.q.name)) g_eq_q = 1;
	if (r == 0 && (b == slot.q_sendrealsoon.name || a == slot.q_sendrealsoon.name)) g_eq_qs = 1;
	return r;
}
#endif
char *verif_strchr(const char *s, int c)
{
	size_t k = nondet_size_t();
	if (nondet_bool()) return (char *)0;
	__CPROVER_assume(k < 255 && s[k] == (char)c);
	return (char *)s + k;
}
#ifdef H_QMEM
/* strlen as used by save_to_qmem_pingordata ("name shorter than 5?"): exact for the first five characters */
size_t verif_strlen(const char *s)
{
	size_t n = nondet_size_t();
	if (s[0] == 0) return 0; if (s[1] == 0) return 1; if (s[2] == 0) return 2; if (s[3] == 0) return 3; if (s[4] == 0) return 4;
	__CPROVER_assume(n >= 5 && n <= 255 && s[n] == 0);
	return n;
}
#else
size_t verif_strlen(const char *s) { size_t n = nondet_size_t(); __CPROVER_assume(n <= 7); return n; } /* only encoder names */
#endif


#ifdef H_NET
#undef read_dns
#undef handle_null_request
#undef handle_ns_request
#undef handle_a_request
#undef forward_query
#if defined(VERIF_NSLOTS) && VERIF_NSLOTS == 2
#undef start_new_outpacket
#undef save_to_outpacketq
#endif
#undef recvfrom
#undef uncompress
#undef compress2
#undef inet_addr
#endif
#undef strchr
#ifdef STUB_GETQ
#undef get_from_outpacketq
#define get_from_outpacketq verif_real_get_from_outpacketq
#endif
#undef memcpy
#undef strcmp
#undef strlen
#undef time
#ifdef STUB_CHECKS
#undef check_authenticated_user_and_ip
#define check_authenticated_user_and_ip verif_real_check_authenticated_user_and_ip
#endif
#ifdef STUB_HELPERS
#undef send_chunk_or_dataless
#undef handle_full_packet
#undef process_downstream_ack
#undef answer_from_dnscache
#undef answer_from_qmem
#define send_chunk_or_dataless verif_real_send_chunk_or_dataless
#define handle_full_packet verif_real_handle_full_packet
#define process_downstream_ack verif_real_process_downstream_ack
#define answer_from_dnscache verif_real_answer_from_dnscache
#define answer_from_qmem verif_real_answer_from_qmem
#endif

/* ---- stubs for functions of other translation units ------------------------------------------- */
#ifndef VERIF_SHRUNK_TU
struct tun_user *users;
#endif
static int stub_encode(char *dst, size_t *dstlen, const void *src, size_t srclen) { __CPROVER_assert(0, "encoder not expected here"); return 0; }
static int stub_decode(void *dst, size_t *dstlen, const char *src, size_t srclen)
{
	/* contract of every decoder (C07 groups): at most *dstlen bytes + NUL written, result in 0..*dstlen */
	int r = nondet_int();
	__CPROVER_assert(__CPROVER_w_ok(dst, *dstlen + 1), "decoder output has room for *dstlen + 1 bytes");
	__CPROVER_assert(srclen == 0 || __CPROVER_r_ok(src, srclen), "decoder input readable");
	__CPROVER_assume(r >= 0 && (size_t)r <= *dstlen);
	__CPROVER_havoc_slice(dst, *dstlen + 1);
	return r;
}
const struct encoder base32_ops = { "Base32", stub_encode, stub_decode }, base64_ops = { "Base64", stub_encode, stub_decode },
	base64u_ops = { "Base64u", stub_encode, stub_decode }, base128_ops = { "Base128", stub_encode, stub_decode };

/* decoded request fields are chosen by the harness (case split on the slot index) */
static int g_b32_script[8], g_b32_n;
int b32_8to5(int in)
{
	int r = g_b32_n < 8 ? g_b32_script[g_b32_n] : nondet_int();
	g_b32_n++;
	__CPROVER_assume(r >= 0 && r < 32);     /* proved range of the real b32_8to5 */
	return r;
}
int b32_5to8(int in) { return nondet_int(); }
static unsigned char g_unpacked[32];
static signed char g_unpack0;              /* first decoded byte = userid for L/N/P */
static int g_unpack_ret;
int unpack_data(char *buf, size_t buflen, char *data, size_t datalen, const struct encoder *enc)
{
	__CPROVER_assert(__CPROVER_w_ok(buf, buflen), "unpack_data: output writable");
	__CPROVER_assert(datalen == 0 || __CPROVER_rw_ok(data, datalen), "unpack_data: encoded text inside the name copy");
	g_unp_buf = buf;
	__CPROVER_havoc_slice(buf, 32);
	buf[0] = g_unpack0;
	{ int k; for (k = 0; k < 32; k++) g_unpacked[k] = (unsigned char)buf[k]; }   /* ghost copy of what was decoded */
	__CPROVER_assume(g_unpack_ret >= 0 && (size_t)g_unpack_ret <= buflen);
	return g_unpack_ret;
}
void login_calculate(char *buf, int buflen, const char *pass, int seed)
{
	int i;
	__CPROVER_assert(buflen >= 16 && __CPROVER_w_ok(buf, 16), "login_calculate: 16-byte output");
	__CPROVER_assert(pass == password, "login_calculate is given the server password");
	if (g_login_calls == 0) {
		g_login_seed = seed;
		for (i = 0; i < 16; i++)
			buf[i] = g_login_out[i];
	} else {
		g_login_seed2 = seed;
		for (i = 0; i < 16; i++)
			buf[i] = g_login_out2[i];
	}
	g_login_calls++;
}
static int g_fau_ret, g_fau_taken;
int find_available_user(void)
{
	/* contract proved in group find_available_user: -1 or a slot that was unused/expired, reset */
	if (g_fau_ret < 0)
		return -1;
	__CPROVER_assume(g_fau_ret == 0);
	__CPROVER_assume((!users[0].active || users[0].last_pkt + 60 < g_now) && !users[0].disabled);
	users[0].active = 1; users[0].authenticated = 0; users[0].authenticated_raw = 0; users[0].options_locked = 0;
	users[0].last_pkt = g_now; users[0].fragsize = 4096; users[0].conn = CONN_DNS_NULL;
	g_fau_taken = 1;
	return 0;
}
void user_switch_codec(int userid, const struct encoder *enc) { if (userid < 0 || userid >= 1) return; users[userid].encoder = enc; }
void user_set_conn_type(int userid, enum connection c) { if (userid < 0 || userid >= 1) return; if (c < CONN_RAW_UDP || c >= CONN_MAX) return; users[userid].conn = c; }
static const void *g_tun_data; static size_t g_tun_len;
int write_tun(int fd, char *data, size_t len) { g_tun_writes++; g_tun_data = data; g_tun_len = len; return (int)len; }
char *format_addr(struct sockaddr_storage *a, int l) { static char b[8]; return b; }
static unsigned char g_sent[24]; static size_t g_sent_len; static const void *g_sent_to, *g_sent_buf; static int g_sent_fd; static socklen_t g_sent_tolen;
ssize_t verif_sendto(int fd, const void *buf, size_t len, int flags, const struct sockaddr *to, socklen_t tolen)
{
	size_t k;
	__CPROVER_assert(len == 0 || __CPROVER_r_ok(buf, len), "sendto: buffer readable for len bytes");
	g_sendto++; g_sent_len = len; g_sent_to = to; g_sent_buf = buf; g_sent_fd = fd; g_sent_tolen = tolen;
	for (k = 0; k < 24; k++) g_sent[k] = k < len ? ((const unsigned char *)buf)[k] : 0;
	return (ssize_t)len;
}

#ifdef H_QMEM
static const char *g_wd_data; static int g_wd_len;
#endif
/* write_dns recorder (the real write_dns has its own proof) */
static void verif_stub_write_dns(int fd, struct query *q, const char *data, int datalen, char downenc)
{
	int i;
	__CPROVER_assert(datalen >= 0 && (datalen == 0 || __CPROVER_r_ok(data, datalen)), "write_dns: payload readable for datalen bytes");
	if (g_answers < 4) {
		g_ans_id[g_answers] = q->id;
		g_ans_enc[g_answers] = downenc;
	}
	g_answers++;
	g_paylen = datalen;
#ifdef H_QMEM
	g_wd_data = data; g_wd_len = datalen;
#endif
	for (i = 0; i < 12; i++)
		g_pay[i] = i < datalen ? (unsigned char)data[i] : 0;
}
#define PB(lit, i) ((i) >= sizeof(lit) - 1 || g_pay[i] == (unsigned char)(lit)[(i) < sizeof(lit) - 1 ? (i) : 0])
#define PAY_IS(lit) (g_paylen == (int)sizeof(lit) - 1 && PB(lit, 0) && PB(lit, 1) && PB(lit, 2) && PB(lit, 3) && PB(lit, 4) && PB(lit, 5) && PB(lit, 6) && PB(lit, 7) && PB(lit, 8))

#ifdef STUB_HELPERS
#ifndef STUB_CONTRACTS
/* commands other than P and data never reach the stream helpers */
#define UNREACHED(name) do { __CPROVER_assert(0, name " is not reachable from this command"); __CPROVER_assume(0); } while (0)
static int verif_stub_send_chunk_or_dataless(int dns_fd, int userid, struct query *q) { UNREACHED("send_chunk_or_dataless"); return 0; }
static void verif_stub_handle_full_packet(int tun_fd, struct dnsfd *dns_fds, int userid) { UNREACHED("handle_full_packet"); }
static void verif_stub_process_downstream_ack(int userid, int down_seq, int down_frag) { UNREACHED("process_downstream_ack"); }
static int verif_stub_answer_from_dnscache(int dns_fd, int userid, struct query *q) { UNREACHED("answer_from_dnscache"); return 0; }
static int verif_stub_answer_from_qmem(int dns_fd, struct query *q, unsigned char *a, unsigned short *b, int c, unsigned char *d) { UNREACHED("answer_from_qmem"); return 0; }
#endif
#endif

#if defined(STUB_HELPERS) && defined(STUB_CONTRACTS)
/* contract stubs of the stream helpers (each contract is proved on the real helper in its own group) */
static int g_chunk_calls, g_ack_calls, g_full_calls, g_cache_hits, g_qmem_hits, g_chunk_user;
static void any_outstream(void);
static void any_outstream_u1(void);
static void count_answer(struct query *q)
{
	if (g_answers < 4) g_ans_id[g_answers] = q->id;
	g_answers++;
}
static int verif_stub_send_chunk_or_dataless(int dns_fd, int userid, struct query *q)
{
#if defined(VERIF_NSLOTS) && VERIF_NSLOTS > 1
	__CPROVER_assert((userid == 0 && (q == &users[0].q || q == &users[0].q_sendrealsoon)) || (userid == 1 && (q == &users[1].q || q == &users[1].q_sendrealsoon)), "send_chunk_or_dataless is called for a query held by the session");
	g_chunk_user = userid;
#else
	__CPROVER_assert(userid == 0 && (q == &users[0].q || q == &users[0].q_sendrealsoon), "send_chunk_or_dataless is called for a query held by the session");
#endif
	__CPROVER_assert(q->id != 0, "send_chunk_or_dataless precondition: the query has not been answered yet (id != 0)");
	g_chunk_calls++;
	count_answer(q);
	if (q->id2 != 0) { q->id = q->id2; count_answer(q); }
	q->id = 0;
#if defined(VERIF_NSLOTS) && VERIF_NSLOTS > 1
	if (userid == 1) any_outstream_u1(); else
#endif
	any_outstream();
	return nondet_bool();
}
static void verif_stub_process_downstream_ack(int userid, int down_seq, int down_frag)
{
	__CPROVER_assert(userid == 0, "process_downstream_ack on the checked session");
	g_ack_calls++;
	any_outstream();
}
static int verif_stub_answer_from_dnscache(int dns_fd, int userid, struct query *q)
{
	__CPROVER_assert(userid == 0, "answer_from_dnscache on the checked session");
	if (nondet_bool()) { g_cache_hits++; count_answer(q); q->id = 0; return 1; }
	return 0;
}
static int verif_stub_answer_from_qmem(int dns_fd, struct query *q, unsigned char *a, unsigned short *b, int c, unsigned char *d)
{
	if (nondet_bool()) { g_qmem_hits++; count_answer(q); q->id = 0; return 1; }
	return 0;
}
static void verif_stub_handle_full_packet(int tun_fd, struct dnsfd *dns_fds, int userid)
{
	__CPROVER_assert(userid == 0, "handle_full_packet on the checked session");
	g_full_calls++;
	if (nondet_bool()) g_tun_writes++;                 /* at most one tun write */
	else if (nondet_bool()) {                          /* or forwarded to the (same, single) session: may answer one held query */
		if (users[0].q_sendrealsoon.id != 0) verif_stub_send_chunk_or_dataless(8, 0, &users[0].q_sendrealsoon);
		else if (users[0].q.id != 0) verif_stub_send_chunk_or_dataless(8, 0, &users[0].q);
		g_chunk_calls = 0;                             /* not counted as the dispatcher's own calls */
	}
	users[0].inpacket.len = 0;
	users[0].inpacket.offset = 0;
}
#endif

/* ---- single-slot state --------------------------------------------------------------------- */
static struct query g_q;

/* representation invariant of a session slot (what every handler may rely on and must keep) */
#define SESSION_WF(u) ((u).last_pkt >= 0 && (u).last_pkt < (1L << 40) && \
	(u).inpacket.len >= 0 && (u).inpacket.offset == (u).inpacket.len /* both advance and reset together */ && (u).inpacket.len <= (int)sizeof((u).inpacket.data) && \
	(u).outpacket.len >= 0 && (u).outpacket.len <= (int)sizeof((u).outpacket.data) && (u).outpacket.offset >= 0 && (u).outpacket.offset <= (u).outpacket.len && \
	(u).outpacket.sentlen >= 0 && (u).outpacket.sentlen <= (u).outpacket.len - (u).outpacket.offset && \
	(u).fragsize >= 2 && (u).fragsize <= 65535 && (u).outfragresent >= 0 && (u).outfragresent <= 7 && \
	(u).outpacketq[0].len >= 0 && (u).outpacketq[0].len <= (int)sizeof((u).outpacket.data) && (u).outpacketq[1].len >= 0 && (u).outpacketq[1].len <= (int)sizeof((u).outpacket.data) && \
	(u).outpacketq[2].len >= 0 && (u).outpacketq[2].len <= (int)sizeof((u).outpacket.data) && (u).outpacketq[3].len >= 0 && (u).outpacketq[3].len <= (int)sizeof((u).outpacket.data) && \
	(u).outpacketq_filled >= 0 && (u).outpacketq_filled <= OUTPACKETQ_LEN && (u).outpacketq_nexttouse >= 0 && (u).outpacketq_nexttouse < OUTPACKETQ_LEN && \
	(u).dnscache_lastfilled >= 0 && (u).dnscache_lastfilled < DNSCACHE_LEN && \
	(u).qmemping_lastfilled >= 0 && (u).qmemping_lastfilled < QMEMPING_LEN && (u).qmemdata_lastfilled >= 0 && (u).qmemdata_lastfilled < QMEMDATA_LEN && \
	(u).hostlen <= sizeof(struct sockaddr_storage) && (u).q.fromlen <= sizeof(struct sockaddr_storage) && (u).q_sendrealsoon.fromlen <= sizeof(struct sockaddr_storage) && \
	((u).q.id2 == 0 || (u).q.fromlen2 <= sizeof(struct sockaddr_storage)) && ((u).q_sendrealsoon.id2 == 0 || (u).q_sendrealsoon.fromlen2 <= sizeof(struct sockaddr_storage)))

/* the part of the invariant that speaks about the downstream stream state only: what the contract stubs of the stream
 * helpers may ASSUME after choosing new values for exactly these fields (assuming the whole SESSION_WF there would silently
 * discard every execution in which the function under proof had broken another part of the invariant before the call) */
#define OUTSTREAM_WF(u) ((u).outpacket.len >= 0 && (u).outpacket.len <= (int)sizeof((u).outpacket.data) && (u).outpacket.offset >= 0 && (u).outpacket.offset <= (u).outpacket.len && \
	(u).outpacket.sentlen >= 0 && (u).outpacket.sentlen <= (u).outpacket.len - (u).outpacket.offset && (u).outfragresent >= 0 && (u).outfragresent <= 7 && \
	(u).outpacketq_filled >= 0 && (u).outpacketq_filled <= OUTPACKETQ_LEN && (u).outpacketq_nexttouse >= 0 && (u).outpacketq_nexttouse < OUTPACKETQ_LEN && \
	(u).dnscache_lastfilled >= 0 && (u).dnscache_lastfilled < DNSCACHE_LEN && \
	(u).qmemping_lastfilled >= 0 && (u).qmemping_lastfilled < QMEMPING_LEN && (u).qmemdata_lastfilled >= 0 && (u).qmemdata_lastfilled < QMEMDATA_LEN)
static void any_server_state(void)
{
#ifdef VERIF_SHRUNK_TU
	__CPROVER_havoc_object(users);
#else
	__CPROVER_havoc_object(&slot);
	users = &slot;
#endif
	created_users = 1;
	g_now = nondet_long();
	__CPROVER_assume(g_now >= 0 && g_now < (1L << 40));
	__CPROVER_assume(SESSION_WF(slot));
	check_ip = nondet_int();
	debug = 0;
	__CPROVER_havoc_object(&g_q);
	g_q.name[255] = 0;
	g_q.id2 = 0;                               /* dns_decode clears id2 of every received query (asserted in group dns_decode_query) */
	__CPROVER_assume(g_q.fromlen <= sizeof(struct sockaddr_storage));
	g_answers = 0; g_tun_writes = 0; g_raw_sends = 0; g_sendto = 0; g_b32_n = 0; g_login_calls = 0;
}

/* the source-address comparison of the property, written from the statement */
static _Bool spec_same_source(const struct sockaddr_storage *host, const struct sockaddr_storage *from)
{
	int i;
	if (from->ss_family != host->ss_family)
		return 0;
	if (from->ss_family == AF_INET)
		return ((const struct sockaddr_in *)host)->sin_addr.s_addr == ((const struct sockaddr_in *)from)->sin_addr.s_addr;
	if (from->ss_family == AF_INET6) {
		for (i = 0; i < 16; i++)
			if (((const struct sockaddr_in6 *)host)->sin6_addr.__in6_u.__u6_addr8[i] != ((const struct sockaddr_in6 *)from)->sin6_addr.__in6_u.__u6_addr8[i])
				return 0;
		return 1;
	}
	return 0;
}
/* LIVE: the session exists, is not expired, and (with source checking) the request comes from its address */
#define LIVE0(uid) ((uid) == 0 && slot.active && !slot.disabled && !(slot.last_pkt + 60 < g_now) && (!check_ip || spec_same_source(&slot.host, &g_q.from)))

/* snapshot of everything a request must not change without authorisation */
struct snap {
	int active, authenticated, authenticated_raw, options_locked, disabled, seed, fragsize, lazy, q_id, qs_id;
	enum connection conn; const struct encoder *encoder; char downenc; time_t last_pkt; socklen_t hostlen;
	unsigned short host_family; int in_len, in_off, out_len, out_off; char in_seq, in_frag, out_seq, out_frag;
};
static struct snap take_snap(void)
{
	struct snap s = { slot.active, slot.authenticated, slot.authenticated_raw, slot.options_locked, slot.disabled, slot.seed, slot.fragsize, slot.lazy,
		slot.q.id, slot.q_sendrealsoon.id, slot.conn, slot.encoder, slot.downenc, slot.last_pkt, slot.hostlen, slot.host.ss_family,
		slot.inpacket.len, slot.inpacket.offset, slot.outpacket.len, slot.outpacket.offset,
		slot.inpacket.seqno, slot.inpacket.fragment, slot.outpacket.seqno, slot.outpacket.fragment };
	return s;
}
#define PRIV_UNCHANGED(s) (slot.authenticated == (s).authenticated && slot.authenticated_raw == (s).authenticated_raw && slot.options_locked == (s).options_locked && \
	slot.seed == (s).seed && slot.fragsize == (s).fragsize && slot.lazy == (s).lazy && slot.conn == (s).conn && slot.encoder == (s).encoder && \
	slot.downenc == (s).downenc && slot.hostlen == (s).hostlen && slot.host.ss_family == (s).host_family && slot.active == (s).active && slot.disabled == (s).disabled && \
	slot.inpacket.len == (s).in_len && slot.inpacket.offset == (s).in_off && slot.outpacket.len == (s).out_len && slot.outpacket.offset == (s).out_off && \
	slot.inpacket.seqno == (s).in_seq && slot.inpacket.fragment == (s).in_frag && slot.outpacket.seqno == (s).out_seq && slot.outpacket.fragment == (s).out_frag && \
	slot.q.id == (s).q_id && slot.q_sendrealsoon.id == (s).qs_id)

static int case_uid(void)
{
#if H_UID_CASE == 0
	return 0;
#else
	int u = nondet_int();
	__CPROVER_assume(u != 0);
	return u;
#endif
}

/* ---- check_user_and_ip family: exact against the statement (loop-free, complete) ---------------- */
void h_check_user(void)
{
	any_server_state();
	int uid = case_uid();
	struct snap s0 = take_snap();
	int r1 = check_user_and_ip(uid, &g_q);
	int r2 = check_authenticated_user_and_ip(uid, &g_q);
	int r3 = check_authenticated_user_and_ip_and_options(uid, &g_q);
	__CPROVER_assert((r1 == 0) == LIVE0(uid), "check_user_and_ip accepts exactly a live session addressed from its own source");
	__CPROVER_assert((r2 == 0) == (LIVE0(uid) && slot.authenticated), "check_authenticated_user_and_ip additionally requires the login");
	__CPROVER_assert((r3 == 0) == (LIVE0(uid) && slot.authenticated && (check_ip || !slot.options_locked)), "..._and_options additionally requires unlocked options when source checking is off");
	__CPROVER_assert(PRIV_UNCHANGED(s0) && slot.last_pkt == s0.last_pkt, "the checks change nothing");
	__CPROVER_assert(uid == 0 || (r1 == 1 && r2 == 1 && r3 == 1), "a userid outside the session table makes every check return 1");
	VERIF_REACH();
}

/* ---- request dispatcher, one command letter per group -------------------------------------------- */
#ifndef H_CMD
#define H_CMD 'S'
#endif
static int set_cmd(void)
{
	int domain_len = nondet_int();
	__CPROVER_assume(domain_len >= 0 && domain_len <= 255);
	g_q.name[0] = H_CMD;
	return domain_len;
}

/* S, O, N, I, R: commands that act on behalf of a logged-in session */
void h_cmd_guarded(void)
{
	any_server_state();
	int domain_len = set_cmd();
	int uid = case_uid();
	g_b32_script[0] = uid; g_b32_script[1] = nondet_int(); g_b32_script[2] = nondet_int(); g_b32_script[3] = nondet_int();
	g_b32_script[4] = nondet_int(); g_b32_script[5] = nondet_int(); g_b32_script[6] = nondet_int(); g_b32_script[7] = nondet_int();
	g_unpack0 = (signed char)uid; g_unpack_ret = nondet_int();
#if H_UID_CASE == 1
	__CPROVER_assume(uid >= -128 && uid <= 127);
#endif
#if H_CMD == 'R'
#if H_UID_CASE == 1
	__CPROVER_assume(uid >= 1 && uid <= 15);                   /* R carries the userid in 4 bits */
#endif
	g_b32_script[0] = (uid << 1) | (nondet_int() & 1);        /* userid sits in bits 1..4 of the first character */
	g_b32_script[1] = g_b32_script[0];
#endif
	struct snap s0 = take_snap();
	_Bool live = LIVE0(uid);
	_Bool auth = live && slot.authenticated;
#if H_CMD == 'S' || H_CMD == 'O' || H_CMD == 'N'
	_Bool allowed = auth && (check_ip || !slot.options_locked);
#else
	_Bool allowed = auth;
#endif
	handle_null_request(7, 8, (struct dnsfd *)0, &g_q, domain_len);
	/* C03/C04: nothing privileged happens unless the named session is live, addressed from its own
	 * source and has answered its challenge */
	__CPROVER_assert(allowed || PRIV_UNCHANGED(s0), "no session setting changes without an authenticated live session");
	__CPROVER_assert(allowed || slot.last_pkt == s0.last_pkt, "an unauthorised request does not refresh the session timer");
	__CPROVER_assert(allowed || domain_len < 2 || (g_answers == 1 && (PAY_IS("BADIP") || PAY_IS("BADLEN"))), "an unauthorised request is answered with BADIP/BADLEN only");
	__CPROVER_assert(g_tun_writes == 0 && g_sendto == 0, "these commands never write to the tun device or send raw packets");
	__CPROVER_assert(g_answers <= 1, "at most one answer per request");
	__CPROVER_assert(slot.authenticated == s0.authenticated && slot.seed == s0.seed && slot.authenticated_raw == s0.authenticated_raw && slot.conn == s0.conn, "these commands never touch authentication state");
	__CPROVER_assert(SESSION_WF(slot), "the session invariant is preserved");
#if H_CMD == 'N'
	/* C15: fragment size below 2 is rejected */
	__CPROVER_assert(slot.fragsize == s0.fragsize || (allowed && slot.fragsize >= 2 && slot.options_locked == 1), "fragsize changes only to a value >= 2, and locks the options");
#else
	__CPROVER_assert(slot.fragsize == s0.fragsize, "only N changes the fragment size");
#endif
	VERIF_REACH();
}

/* A symbolic index into the 4-entry queue of 64 KB packets is intractable for CBMC; the harness
 * enumerates the 4 x 5 queue states with literal indices (exhaustive: SESSION_WF bounds both). */
#define FOR_EACH_QUEUE_STATE(BODY) do { int nx_, f_; \
	for (nx_ = 0; nx_ < OUTPACKETQ_LEN; nx_++) for (f_ = 0; f_ <= OUTPACKETQ_LEN; f_++) \
		if (slot.outpacketq_nexttouse == nx_ && slot.outpacketq_filled == f_) { \
			slot.outpacketq_nexttouse = nx_; slot.outpacketq_filled = f_; BODY; return; } \
	__CPROVER_assert(0, "queue state outside SESSION_WF"); } while (0)

#ifdef STUB_GETQ
/* contract of get_from_outpacketq, proved on the real function in group srv_outpacket_queue */
static int verif_stub_get_from_outpacketq(int userid)
{
	__CPROVER_assert(userid == 0, "get_from_outpacketq on the checked session");
	if (slot.outpacketq_filled <= 0)
		return 0;
	slot.outpacket.len = nondet_int();
	__CPROVER_assume(slot.outpacket.len >= 0 && slot.outpacket.len <= (int)sizeof(slot.outpacket.data));
	slot.outpacket.offset = 0; slot.outpacket.sentlen = 0; slot.outpacket.fragment = 0;
	slot.outpacket.seqno = (slot.outpacket.seqno + 1) & 7; slot.outfragresent = 0;
	verif_any_payload(&slot.outpacket);
	slot.outpacketq_nexttouse = (slot.outpacketq_nexttouse + 1) % OUTPACKETQ_LEN;
	slot.outpacketq_filled--;
	return 1;
}
#endif

/* ---- downstream fragments (C15, C14, C01 transfer clause) ---------------------------------------- */
/* capacity of send_chunk_or_dataless's answer buffer in the verified text (4096 in the source; see extraction rules) */
#ifdef VERIF_SHRUNK_TU
#define PKT_CAP 32
#else
#define PKT_CAP 4096
#endif
static void body_send_chunk(struct query *q);
void h_send_chunk(void)
{
	any_server_state();
	if (nondet_bool()) body_send_chunk(&slot.q);            /* the two queries a session may hold, literal pointer each */
	else body_send_chunk(&slot.q_sendrealsoon);
}
static void body_send_chunk(struct query *q)
{
	__CPROVER_assume(q->id != 0);                                      /* obligation at every call site, see dispatcher groups */
	int F = slot.fragsize, len0 = slot.outpacket.len, off0 = slot.outpacket.offset, resent0 = slot.outfragresent;
	int frag0 = slot.outpacket.fragment, qf0 = slot.outpacketq_filled;
	unsigned short id0 = q->id, id2 = q->id2;
	int r = send_chunk_or_dataless(8, 0, q);
	int datalen = g_paylen - 2;
	/* C14: exactly one answer for the held query, one more for a remembered duplicate */
	__CPROVER_assert(g_answers == 1 + (id2 != 0), "send_chunk_or_dataless emits one answer, plus one for a remembered duplicate");
	__CPROVER_assert(g_ans_id[0] == id0 && (id2 == 0 || g_ans_id[1] == id2), "the answers carry the ids of the held query and of its duplicate");
	__CPROVER_assert(q->id == 0, "the held query is consumed");
	/* C15: never more payload than the negotiated fragment size */
	__CPROVER_assert(datalen >= 0 && datalen <= F && datalen <= PKT_CAP - 2, "payload after the 2-byte header is at most the fragment size");
	__CPROVER_assert(g_tun_writes == 0 && g_sendto == 0, "no tun write, no raw send");
	__CPROVER_assert(SESSION_WF(slot), "the session invariant is preserved");
	__CPROVER_assert(r == 0 || r == 1, "result is 0 or 1");
	/* header: bit 0 of byte 1 = last-fragment flag, bits 1..4 = fragment number */
	if (resent0 <= 5 && len0 > 0) {
		__CPROVER_assert(datalen == (F < len0 - off0 ? F : len0 - off0) || datalen == PKT_CAP - 2, "payload is min(fragment size, remaining bytes, answer buffer - 2)");
		__CPROVER_assert((g_pay[1] & 1) == (off0 + datalen == len0), "last-fragment flag is set exactly on the final fragment");
		__CPROVER_assert(((g_pay[1] >> 1) & 15) == (frag0 & 15), "fragment number field is the session's fragment counter");
	}
	__CPROVER_assert(len0 > 0 || qf0 > 0 || datalen == 0, "nothing to send => dataless answer");
	VERIF_REACH();
}

static void body_downstream_ack(void);
void h_downstream_ack(void)
{
	any_server_state();
	FOR_EACH_QUEUE_STATE(body_downstream_ack());
}
static void body_downstream_ack(void)
{
	int seq = nondet_int(), frag = nondet_int();
	int len0 = slot.outpacket.len, off0 = slot.outpacket.offset, sent0 = slot.outpacket.sentlen, qf0 = slot.outpacketq_filled;
	char frag0 = slot.outpacket.fragment, seq0 = slot.outpacket.seqno;
	process_downstream_ack(0, seq, frag);
	_Bool match = len0 > 0 && seq0 == seq && frag0 == frag;
	__CPROVER_assert(match || (slot.outpacket.len == len0 && slot.outpacket.offset == off0 && slot.outpacket.fragment == frag0 && slot.outpacket.seqno == seq0), "a non-matching ack changes nothing");
	__CPROVER_assert(!match || off0 + sent0 >= len0 || (slot.outpacket.offset == off0 + sent0 && slot.outpacket.fragment == (char)(frag0 + 1) && slot.outpacket.len == len0), "a matching ack advances by the bytes sent and numbers the next fragment consecutively");
	__CPROVER_assert(!match || off0 + sent0 < len0 || qf0 > 0 || (slot.outpacket.len == 0 && slot.outpacket.offset == 0), "the packet is finished when everything was acknowledged");
	__CPROVER_assert(g_answers == 0 && g_tun_writes == 0 && SESSION_WF(slot), "no emission; invariant preserved");
	VERIF_REACH();
}

static void body_outpacket_queue(void);
void h_outpacket_queue(void)
{
	any_server_state();
	FOR_EACH_QUEUE_STATE(body_outpacket_queue());
}
static void body_outpacket_queue(void)
{
	static char data[64 * 1024];
	int datalen = nondet_int();
	__CPROVER_assume(datalen >= 0 && datalen <= 65536);   /* callers pass up to 64 KB */
	int qf0 = slot.outpacketq_filled, next0 = slot.outpacketq_nexttouse;
	char seq0 = slot.outpacket.seqno;
	if (nondet_bool()) {
		int r = save_to_outpacketq(0, data, datalen);
		__CPROVER_assert(r == (qf0 < OUTPACKETQ_LEN), "save_to_outpacketq succeeds exactly when the queue has room");
		__CPROVER_assert(slot.outpacketq_filled == qf0 + r && slot.outpacketq_nexttouse == next0, "one more entry, read position unchanged");
		__CPROVER_assert(!r || slot.outpacketq[(next0 + qf0) % OUTPACKETQ_LEN].len == (datalen < (int)sizeof(slot.outpacket.data) ? datalen : (int)sizeof(slot.outpacket.data)), "the entry is stored behind the existing ones with its length (clamped to the buffer capacity)");
	} else if (nondet_bool()) {
		int r = get_from_outpacketq(0);
		__CPROVER_assert(r == (qf0 > 0), "get_from_outpacketq succeeds exactly when something is queued");
		__CPROVER_assert(!r || (slot.outpacketq_filled == qf0 - 1 && slot.outpacketq_nexttouse == (next0 + 1) % OUTPACKETQ_LEN), "the oldest entry is consumed");
		__CPROVER_assert(!r || (slot.outpacket.offset == 0 && slot.outpacket.fragment == 0 && slot.outpacket.sentlen == 0 && slot.outpacket.seqno == ((seq0 + 1) & 7) && slot.outfragresent == 0), "a new downstream packet starts at fragment 0, offset 0, next sequence number");
	} else {
		start_new_outpacket(0, data, datalen);
		__CPROVER_assert(slot.outpacket.len == (datalen < (int)sizeof(slot.outpacket.data) ? datalen : (int)sizeof(slot.outpacket.data)) && slot.outpacket.offset == 0 && slot.outpacket.fragment == 0 && slot.outpacket.sentlen == 0 && slot.outpacket.seqno == ((seq0 + 1) & 7), "start_new_outpacket: exact length, fragment 0, offset 0, next sequence number");
	}
	__CPROVER_assert(SESSION_WF(slot) && g_answers == 0, "invariant preserved, nothing emitted");
	VERIF_REACH();
}

#ifdef H_PROBE
void h_probe(void)
{
	any_server_state();
#if H_PROBE >= 1
	struct snap s0 = take_snap();
#endif
#if H_PROBE >= 2
	verif_any_payload(&slot.outpacket);
#endif
#if H_PROBE == 3
	start_new_outpacket(0, slot.outpacketq[1].data, slot.outpacketq[1].len);
#endif
#if H_PROBE == 4
	get_from_outpacketq(0);
#endif
#if H_PROBE == 5
	{ int n = slot.outpacketq[1].len; __CPROVER_assert(n == 0 || __CPROVER_r_ok(slot.outpacketq[1].data, n), "r"); __CPROVER_assert(n == 0 || __CPROVER_w_ok(slot.outpacket.data, n), "w"); }
#endif
#if H_PROBE == 6
	{ int u = slot.outpacketq_nexttouse; slot.outpacket.len = slot.outpacketq[u].len; verif_any_payload(&slot.outpacket); }
#endif
#if H_PROBE == 7
	{ int u = slot.outpacketq_nexttouse; int n = slot.outpacketq[u].len; __CPROVER_assert(n == 0 || __CPROVER_r_ok(slot.outpacketq[u].data, n), "r"); }
#endif
	__CPROVER_assert(SESSION_WF(slot), "wf");
	VERIF_REACH();
}
#endif

/* ---- Z, Y: open probes - answered for anybody, must not touch any session -------------------------- */
void h_cmd_open(void)
{
	any_server_state();
	int domain_len = set_cmd();
	g_b32_script[0] = nondet_int(); g_b32_script[1] = nondet_int(); g_b32_script[2] = nondet_int();
	struct snap s0 = take_snap();
	handle_null_request(7, 8, (struct dnsfd *)0, &g_q, domain_len);
	__CPROVER_assert(PRIV_UNCHANGED(s0) && slot.last_pkt == s0.last_pkt, "an open probe changes no session");
	__CPROVER_assert(g_answers == (domain_len >= 2), "exactly one answer (none for names shorter than 2)");
	__CPROVER_assert(g_tun_writes == 0 && g_sendto == 0, "no tun write, no raw send");
	VERIF_REACH();
}

/* ---- V: version handshake: may (re)allocate a slot, never authenticates ----------------------------- */
void h_cmd_version(void)
{
	any_server_state();
	int domain_len = set_cmd();
	g_unpack0 = (signed char)nondet_int(); g_unpack_ret = nondet_int();
	g_fau_ret = nondet_bool() ? 0 : -1;
	g_fau_taken = 0;
	struct snap s0 = take_snap();
	_Bool reusable = (!slot.active || slot.last_pkt + 60 < g_now) && !slot.disabled;
	handle_null_request(7, 8, (struct dnsfd *)0, &g_q, domain_len);
	_Bool taken = g_fau_taken;        /* the slot was handed out by find_available_user */
	/* C03: a new challenge always comes with a cleared login; V never sets the login flags */
	__CPROVER_assert(slot.authenticated == 0 || (slot.authenticated == s0.authenticated && slot.seed == s0.seed), "a version request never authenticates, and a new challenge clears the login");
	__CPROVER_assert(slot.authenticated_raw == 0 || (slot.authenticated_raw == s0.authenticated_raw && slot.seed == s0.seed), "a new challenge clears the raw login");
	/* C04: a slot is taken over only if it was unused or silent for more than 60 s */
	__CPROVER_assert(!taken || reusable, "a version request never takes over a session that was active during the last 60 seconds");
	__CPROVER_assert(!taken || (slot.fragsize == 100 && slot.conn == CONN_DNS_NULL && slot.lazy == 0 && slot.q.id == 0 && slot.q_sendrealsoon.id == 0 && slot.inpacket.len == 0 && slot.outpacket.len == 0 && slot.hostlen == g_q.fromlen), "a fresh session starts with the conservative fragment size 100, DNS mode, empty buffers, bound to the sender");
	__CPROVER_assert(g_answers == (domain_len >= 2) && (domain_len < 2 || g_paylen == 9), "one 9-byte VACK/VNAK/VFUL answer");
	__CPROVER_assert(g_tun_writes == 0 && g_sendto == 0, "no tun write, no raw send");
	__CPROVER_assert(taken || PRIV_UNCHANGED(s0), "otherwise nothing changes");
	__CPROVER_assert(SESSION_WF(slot) || !taken, "the session invariant holds for the fresh session");
	VERIF_REACH();
}

/* ---- L: login: the only place that sets `authenticated` ------------------------------------------------ */
void h_cmd_login(void)
{
	any_server_state();
	int domain_len = set_cmd();
	int uid = case_uid(), i;
#if H_UID_CASE == 1
	__CPROVER_assume(uid >= -128 && uid <= 127);
#endif
	g_unpack0 = (signed char)uid; g_unpack_ret = nondet_int();
	for (i = 0; i < 16; i++) g_login_out[i] = nondet_uchar();
	struct snap s0 = take_snap();
	_Bool live = LIVE0(uid);
	handle_null_request(7, 8, (struct dnsfd *)0, &g_q, domain_len);
	_Bool hash_ok = 1;
	for (i = 0; i < 16; i++) hash_ok = hash_ok && g_unpacked[1 + i] == g_login_out[i];
	/* C03: the login flag rises only for a live session from its own source whose 16 submitted bytes
	 * equal the response computed from the server password and THAT session's current challenge */
	__CPROVER_assert(slot.authenticated == s0.authenticated || (slot.authenticated == 1 && live && domain_len >= 2 && g_unpack_ret >= 18 && hash_ok && g_login_calls == 1 && g_login_seed == s0.seed), "login succeeds only with the response for the session's current challenge");
	__CPROVER_assert(slot.seed == s0.seed && slot.authenticated_raw == s0.authenticated_raw && slot.conn == s0.conn && slot.encoder == s0.encoder && slot.downenc == s0.downenc && slot.fragsize == s0.fragsize && slot.lazy == s0.lazy && slot.options_locked == s0.options_locked && slot.hostlen == s0.hostlen && slot.active == s0.active, "login changes nothing else");
	__CPROVER_assert(live || (slot.last_pkt == s0.last_pkt && slot.authenticated == s0.authenticated), "a login for a dead session or from a foreign source changes nothing");
	__CPROVER_assert(live || domain_len < 2 || (g_answers == 1 && (PAY_IS("BADIP") || PAY_IS("BADLEN"))), "... and is answered BADIP/BADLEN");
	__CPROVER_assert(g_answers <= 1 && g_tun_writes == 0 && g_sendto == 0, "at most one answer, no tun write, no raw send");
	VERIF_REACH();
}


#if defined(STUB_HELPERS) && defined(STUB_CONTRACTS)
/* downstream stream state after a helper ran: arbitrary within SESSION_WF (their exact effect is
 * proved in the helper groups) */
static void any_outstream(void)
{
	slot.outpacket.len = nondet_int(); slot.outpacket.offset = nondet_int(); slot.outpacket.sentlen = nondet_int();
	slot.outpacket.fragment = (char)nondet_int(); slot.outpacket.seqno = (char)nondet_int(); slot.outfragresent = nondet_int();
	slot.outpacketq_filled = nondet_int(); slot.outpacketq_nexttouse = nondet_int();
	slot.dnscache_lastfilled = nondet_int(); slot.qmemping_lastfilled = nondet_int(); slot.qmemdata_lastfilled = nondet_int();
	__CPROVER_assume(OUTSTREAM_WF(slot));
}
static void any_outstream_u1(void)
{
#if defined(VERIF_NSLOTS) && VERIF_NSLOTS > 1
	users[1].outpacket.len = nondet_int(); users[1].outpacket.offset = nondet_int(); users[1].outpacket.sentlen = nondet_int();
	users[1].outpacket.fragment = (char)nondet_int(); users[1].outpacket.seqno = (char)nondet_int(); users[1].outfragresent = nondet_int();
	users[1].outpacketq_filled = nondet_int(); users[1].outpacketq_nexttouse = nondet_int();
	users[1].dnscache_lastfilled = nondet_int(); users[1].qmemping_lastfilled = nondet_int(); users[1].qmemdata_lastfilled = nondet_int();
	__CPROVER_assume(OUTSTREAM_WF(users[1]));
#endif
}
int recent_seqno(int ourseqno, int gotseqno) { return nondet_bool(); }
#define TOKENS(qq) ((qq).id != 0 ? 1 + ((qq).id2 != 0) : 0)

/* ---- P and data: the stream commands (C14 token accounting, C16 duplicates, C03 guard) ----------------- */
void h_cmd_stream(void)
{
	any_server_state();
	int domain_len = nondet_int();
	__CPROVER_assume(domain_len >= 0 && domain_len <= 255);
	int uid = case_uid(), i;
#if H_CMD == 'P'
	g_q.name[0] = 'P';
#if H_UID_CASE == 1
	__CPROVER_assume(uid >= -128 && uid <= 127);
#endif
	g_unpack0 = (signed char)uid; g_unpack_ret = nondet_int();
#else
#if H_UID_CASE == 0
	g_q.name[0] = '0';
	g_unpack_ret = nondet_int();
#else
	{ char c = (char)nondet_int(); __CPROVER_assume((c >= '1' && c <= '9') || (c >= 'a' && c <= 'f') || (c >= 'A' && c <= 'F')); g_q.name[0] = c;
	  uid = c <= '9' ? c - '0' : (c >= 'a' ? c - 'a' + 10 : c - 'A' + 10); }
	g_unpack_ret = nondet_int();
#endif
#endif
	for (i = 0; i < 8; i++) g_b32_script[i] = nondet_int();
	g_chunk_calls = g_ack_calls = g_full_calls = g_cache_hits = g_qmem_hits = 0; g_eq_q = g_eq_qs = 0; g_in_cpy_calls = 0;
	struct snap s0 = take_snap();
	_Bool auth = LIVE0(uid) && slot.authenticated;
	int before = (g_q.id != 0) + TOKENS(slot.q) + TOKENS(slot.q_sendrealsoon);
	unsigned short qid0 = g_q.id, hq_id2 = slot.q.id2, hs_id2 = slot.q_sendrealsoon.id2;
	handle_null_request(7, 8, (struct dnsfd *)0, &g_q, domain_len);
	int after = TOKENS(slot.q) + TOKENS(slot.q_sendrealsoon);
	/* C14: answers are paid for by queries: every answer consumes a received, not yet answered query */
	__CPROVER_assert(g_answers + after <= before, "no surplus answer: answers + queries still held <= query received + queries held before");
	__CPROVER_assert(qid0 != 0 || (g_answers == 0 && PRIV_UNCHANGED(s0) && slot.last_pkt == s0.last_pkt), "a query with DNS id 0 is ignored");
	/* C03/C04 */
	__CPROVER_assert(auth || (PRIV_UNCHANGED(s0) && slot.last_pkt == s0.last_pkt && g_tun_writes == 0 && g_full_calls == 0 && g_chunk_calls == 0), "without a live authenticated session from its own source nothing is delivered, sent downstream or changed");
	__CPROVER_assert(auth || qid0 == 0 || g_answers <= 1, "... and at most a BADIP goes back");
	/* C16: a re-delivered query that hits the answer cache or the query memory touches nothing */
	__CPROVER_assert(!(g_cache_hits || g_qmem_hits) || (PRIV_UNCHANGED(s0) && slot.last_pkt == s0.last_pkt && g_answers == 1 && g_full_calls == 0 && g_ack_calls == 0 && g_chunk_calls == 0 && slot.q.id2 == hq_id2 && slot.q_sendrealsoon.id2 == hs_id2),
			 "a cache / query-memory hit is answered once and neither appends upstream data nor moves the downstream stream");
	__CPROVER_assert(g_full_calls <= 1 && (g_tun_writes == 0 || g_full_calls == 1), "at most one packet is delivered, and only through handle_full_packet");
#if H_CMD != 'P'
	/* C01: what is appended to the upstream reassembly buffer is exactly the decoded data part of this query, placed at the
	 * fill level (0 after a new sequence number), cut to the room left; the fill level advances by exactly that */
	{
		int base = slot.inpacket.seqno != s0.in_seq ? 0 : s0.in_len;
		int room = (int)sizeof(slot.inpacket.data) - base;
		int want = g_unpack_ret < room ? g_unpack_ret : room;
		__CPROVER_assert(g_in_cpy_calls <= 1, "at most one append per query");
		__CPROVER_assert(g_in_cpy_calls == 0 || (auth && g_in_cpy_src == g_unp_buf && g_in_cpy_off == (size_t)base && g_in_cpy_n == (size_t)want), "the appended bytes are the decoder's output, copied to the fill level, cut to the room left");
		__CPROVER_assert(g_full_calls == 1 || slot.inpacket.len == (g_in_cpy_calls ? base + want : slot.inpacket.seqno != s0.in_seq ? 0 : s0.in_len), "the fill level advances by exactly the bytes appended");
#if H_UID_CASE == 0
		/* second vacuity guard: the append path itself is exercised by this group */
		__CPROVER_assert(g_in_cpy_calls == 0, "VERIF_REACH: the upstream append is reachable (must fail)");
		__CPROVER_assert(g_full_calls == 0, "VERIF_REACH: the delivery of a complete packet is reachable (must fail)");
#endif
	}
#else
	__CPROVER_assert(g_in_cpy_calls == 0, "a ping appends nothing upstream");
#endif
	__CPROVER_assert(g_sendto == 0, "no raw send");
	__CPROVER_assert(slot.authenticated == s0.authenticated && slot.authenticated_raw == s0.authenticated_raw && slot.seed == s0.seed && slot.conn == s0.conn && slot.encoder == s0.encoder && slot.downenc == s0.downenc && slot.fragsize == s0.fragsize && slot.lazy == s0.lazy && slot.options_locked == s0.options_locked && slot.hostlen == s0.hostlen, "stream commands never change login state or session options");
	/* C14/C16: a duplicate is remembered with the held query it duplicates (same type, same name), so that the extra answer
	 * carries the duplicate's own question */
	{
		_Bool q_same = slot.q.id == s0.q_id && slot.q.id2 == hq_id2, q_gone = slot.q.id == 0, q_fresh = slot.q.id == qid0 && slot.q.id2 == 0;
		_Bool q_dup = s0.q_id != 0 && slot.q.id == s0.q_id && slot.q.id2 == qid0 && g_eq_q && g_q.type == slot.q.type && g_answers == 0;
		_Bool s_same = slot.q_sendrealsoon.id == s0.qs_id && slot.q_sendrealsoon.id2 == hs_id2, s_gone = slot.q_sendrealsoon.id == 0, s_fresh = slot.q_sendrealsoon.id == qid0 && slot.q_sendrealsoon.id2 == 0;
		_Bool s_moved = slot.q_sendrealsoon.id == s0.q_id && slot.q_sendrealsoon.id2 == hq_id2;
		_Bool s_dup = s0.qs_id != 0 && slot.q_sendrealsoon.id == s0.qs_id && slot.q_sendrealsoon.id2 == qid0 && g_eq_qs && g_q.type == slot.q_sendrealsoon.type && g_answers == 0;
		__CPROVER_assert(q_same || q_gone || q_fresh || q_dup, "the held query is kept, consumed, replaced by the received query, or remembers the received query as ITS duplicate (same type and name) - nothing else");
		__CPROVER_assert(s_same || s_gone || s_fresh || s_moved || s_dup, "the send-soon query is kept, consumed, replaced (by the received or the held query), or remembers the received query as ITS duplicate (same type and name) - nothing else");
	}
	__CPROVER_assert(SESSION_WF(slot), "the session invariant is preserved");
	VERIF_REACH();
}
#endif


/* ---- answer cache and query memory (C16): the real ring writers and lookups -------------------------------
 * Lemmas over arbitrary session state:
 *  (1) save_to_qmem_pingordata for a data query stores (type, the 4 characters behind the userid, lower-cased)
 *      in the next ring slot and leaves every other slot alone; a re-delivered copy of that query - same type,
 *      the same 4 characters in ANY letter case (0x20 relays), any DNS id - is then found by answer_from_qmem_data:
 *      one illegal 1-byte answer, query consumed, no session state touched.
 *  (2) answer_from_qmem (data and ping memory): a hit emits exactly that one answer; a miss emits nothing,
 *      keeps the query, and no slot matched (arbitrary ghost slot).
 *  (3) save_to_dnscache stores query and answer in the next of 4 slots; an identical repeat (same type, strcmp-
 *      equal name) is answered by answer_from_dnscache with exactly the stored bytes and length; a miss emits
 *      nothing. */
#ifdef H_QMEM
#define LC(c) (((c) >= 'A' && (c) <= 'Z') ? (c) + 32 : (c))
void h_qmem_data(void)
{
	any_server_state();
	int k = nondet_int(), j;
	__CPROVER_assume(k >= 0 && k < QMEMDATA_LEN);
	unsigned char b0 = slot.qmemdata_cmc[4 * k], b1 = slot.qmemdata_cmc[4 * k + 1], b2 = slot.qmemdata_cmc[4 * k + 2], b3 = slot.qmemdata_cmc[4 * k + 3];
	unsigned short bt = slot.qmemdata_type[k];
	int last0 = slot.qmemdata_lastfilled;
	__CPROVER_assume(g_q.name[0] != 'P' && g_q.name[0] != 'p');                  /* a data query ... */
	__CPROVER_assume(g_q.name[0] && g_q.name[1] && g_q.name[2] && g_q.name[3] && g_q.name[4]);   /* ... with its 5-character header */
	__CPROVER_assume(g_q.type != T_UNSET);
	struct snap s0 = take_snap();
	save_to_qmem_pingordata(0, &g_q);
	int fill = last0 + 1 >= QMEMDATA_LEN ? 0 : last0 + 1;
	__CPROVER_assert(slot.qmemdata_lastfilled == fill, "the query memory is a ring: the next slot is filled");
	__CPROVER_assert(k == fill || (slot.qmemdata_type[k] == bt && slot.qmemdata_cmc[4 * k] == b0 && slot.qmemdata_cmc[4 * k + 1] == b1 && slot.qmemdata_cmc[4 * k + 2] == b2 && slot.qmemdata_cmc[4 * k + 3] == b3), "every other slot keeps its entry");
	__CPROVER_assert(slot.qmemdata_type[fill] == g_q.type, "the slot remembers the query type");
	for (j = 0; j < 4; j++)
		__CPROVER_assert(slot.qmemdata_cmc[4 * fill + j] == (unsigned char)LC(g_q.name[1 + j]), "the slot remembers the four header characters in lower case");
	__CPROVER_assert(PRIV_UNCHANGED(s0) && g_answers == 0, "remembering a query changes nothing else and emits nothing");
	/* the same query again, letters possibly case-changed by a relay, possibly with a rewritten DNS id */
	struct query q2 = g_q;
	for (j = 1; j <= 4; j++) {
		char c = (char)nondet_int();
		__CPROVER_assume(LC(c) == LC(g_q.name[j]));
		q2.name[j] = c;
	}
	q2.id = (unsigned short)nondet_int();
	int r = answer_from_qmem_data(8, 0, &q2);
	__CPROVER_assert(r == 1, "a re-delivered data query is recognised whatever the letter case of its header");
	__CPROVER_assert(q2.id == 0 && g_answers == 1 && g_paylen == 1 && g_pay[0] == 'x' && g_ans_enc[0] == 'T', "it is consumed with exactly one illegal 1-byte answer");
	__CPROVER_assert(PRIV_UNCHANGED(s0) && slot.last_pkt == s0.last_pkt && g_tun_writes == 0, "and touches no session state");
	VERIF_REACH();
}
void h_qmem_lookup(void)
{
	any_server_state();
	_Bool ping = nondet_bool();
	int len = ping ? QMEMPING_LEN : QMEMDATA_LEN, k = nondet_int();
	unsigned char *cmcs = ping ? slot.qmemping_cmc : slot.qmemdata_cmc;
	unsigned short *types = ping ? slot.qmemping_type : slot.qmemdata_type;
	unsigned char cmc[4] = { nondet_uchar(), nondet_uchar(), nondet_uchar(), nondet_uchar() };
	__CPROVER_assume(k >= 0 && k < len);
	unsigned short id0 = g_q.id;
	struct snap s0 = take_snap();
	int r = ping ? answer_from_qmem(8, &g_q, slot.qmemping_cmc, slot.qmemping_type, QMEMPING_LEN, cmc)
		     : answer_from_qmem(8, &g_q, slot.qmemdata_cmc, slot.qmemdata_type, QMEMDATA_LEN, cmc);
	_Bool match_k = types[k] != T_UNSET && types[k] == g_q.type && cmcs[4 * k] == cmc[0] && cmcs[4 * k + 1] == cmc[1] && cmcs[4 * k + 2] == cmc[2] && cmcs[4 * k + 3] == cmc[3];
	__CPROVER_assert(r == 0 || r == 1, "result is 0 or 1");
	__CPROVER_assert(r == 1 || !match_k, "a miss means no remembered entry has this type and fingerprint");
	__CPROVER_assert(r == 0 || (g_q.id == 0 && g_answers == 1 && g_paylen == 1 && g_pay[0] == 'x'), "a hit consumes the query with exactly one illegal 1-byte answer");
	__CPROVER_assert(r == 1 || (g_q.id == id0 && g_answers == 0), "a miss emits nothing and keeps the query");
	__CPROVER_assert(PRIV_UNCHANGED(s0) && slot.last_pkt == s0.last_pkt && g_tun_writes == 0, "the lookup touches no session state");
	VERIF_REACH();
}
/* the ring position is made a literal by an exhaustive case split (SESSION_WF bounds it to 0..3): symbolic
 * indices into the array of cached queries are beyond CBMC here */
#define FOR_EACH_CACHE_POS(BODY) do { int l_; for (l_ = 0; l_ < DNSCACHE_LEN; l_++) if (slot.dnscache_lastfilled == l_) { slot.dnscache_lastfilled = l_; BODY; return; } \
	__CPROVER_assert(0, "cache position outside SESSION_WF"); } while (0)
static void body_dnscache(void);
static void body_dnscache_miss(void);
void h_dnscache(void) { any_server_state(); FOR_EACH_CACHE_POS(body_dnscache()); }
void h_dnscache_miss(void) { any_server_state(); FOR_EACH_CACHE_POS(body_dnscache_miss()); }
static void body_dnscache(void)
{
	static char answer[sizeof(slot.dnscache_answer[0])];
	int alen = nondet_int(), last0 = slot.dnscache_lastfilled;
	__CPROVER_assume(alen >= 1 && alen <= (int)sizeof(answer));     /* send_chunk_or_dataless stores answers of at least 2 bytes */
	__CPROVER_assume(g_q.id != 0);                                  /* only queries that are being answered are stored */
	struct snap s0 = take_snap();
	save_to_dnscache(0, &g_q, answer, alen);
	int fill = last0 + 1 >= DNSCACHE_LEN ? 0 : last0 + 1;
	__CPROVER_assert(slot.dnscache_lastfilled == fill && slot.dnscache_answerlen[fill] == alen && slot.dnscache_q[fill].type == g_q.type && slot.dnscache_q[fill].id == g_q.id, "the answer cache is a ring of 4: the next slot holds the query and the answer length");
	__CPROVER_assert(PRIV_UNCHANGED(s0) && g_answers == 0, "storing changes nothing else and emits nothing");
	struct query q2 = g_q;                                           /* an identical repeat (relays may rewrite the id) */
	q2.id = (unsigned short)nondet_int();
	g_wd_data = 0;
	int r = answer_from_dnscache(8, 0, &q2);
	__CPROVER_assert(r == 1 && q2.id == 0 && g_answers == 1, "an identical repeat is answered from the cache exactly once and consumed");
	__CPROVER_assert(g_wd_data == slot.dnscache_answer[fill] && g_wd_len == alen && g_ans_enc[0] == slot.downenc, "with the stored answer bytes and length (most recent entry first), in the session's downstream codec");
	__CPROVER_assert(PRIV_UNCHANGED(s0) && slot.last_pkt == s0.last_pkt && g_tun_writes == 0, "and touches no session state");
	VERIF_REACH();
}
static void body_dnscache_miss(void)
{
	int k = nondet_int();
	__CPROVER_assume(k >= 0 && k < DNSCACHE_LEN);
	unsigned short id0 = g_q.id;
	struct snap s0 = take_snap();
	int r = answer_from_dnscache(8, 0, &g_q);
	__CPROVER_assert(r == 0 || r == 1, "result is 0 or 1");
	__CPROVER_assert(r == 1 || (g_answers == 0 && g_q.id == id0), "a miss emits nothing and keeps the query");
	__CPROVER_assert(r == 1 || slot.dnscache_q[k].id == 0 || slot.dnscache_answerlen[k] <= 0 || slot.dnscache_q[k].type != g_q.type || verif_strcmp(slot.dnscache_q[k].name, g_q.name) != 0, "a miss means no valid entry has this type and name");
	__CPROVER_assert(r == 0 || (g_answers == 1 && g_q.id == 0 && g_paylen >= 1), "a hit emits exactly one answer and consumes the query");
	__CPROVER_assert(PRIV_UNCHANGED(s0) && slot.last_pkt == s0.last_pkt && g_tun_writes == 0, "the lookup touches no session state");
	VERIF_REACH();
}
#endif

/* ---- raw UDP mode (C03 clause 3, C19 call sites, C12/C05 for raw frames) --------------------------------
 * raw_decode on a datagram object of EXACTLY len bytes; handle_raw_login/data/ping are the real bodies. */
#ifdef H_RAW
VERIF_RAW_HEADER_DEF       /* the definition of raw_header, copied from common.c by a must-match pattern on every run */
#ifndef STUB_HELPERS
#error "raw groups stub handle_full_packet"
#endif
void h_raw_decode(void)
{
	any_server_state();
	int len = nondet_int(), i;
	/* read_dns hands over at most its receive buffer, which is declared with the size of a packet payload
	 * (both 64*1024 in the source; must-fire static fact in the extraction rules) */
	__CPROVER_assume(len >= 0 && len <= (int)sizeof(slot.inpacket.data));
	char *packet = malloc(len);                         /* EXACTLY the datagram */
	int uid = case_uid();
#if H_UID_CASE == 1
	__CPROVER_assume(uid >= 1 && uid <= 15);
#endif
	unsigned char cmd = nondet_uchar();
	__CPROVER_assume((cmd & 0x0F) == 0);
	if (len >= 4) packet[3] = (char)(cmd | uid);
	for (i = 0; i < 16; i++) { g_login_out[i] = nondet_uchar(); g_login_out2[i] = nondet_uchar(); }
	unsigned char sub[16];
	for (i = 0; i < 16; i++) sub[i] = (len >= 20) ? (unsigned char)packet[4 + i] : 0;
	struct snap s0 = take_snap();
	struct sockaddr_storage host0 = slot.host;
	_Bool hdr = len >= 4 && (unsigned char)packet[0] == 0x10 && (unsigned char)packet[1] == 0xd1 && (unsigned char)packet[2] == 0x9e;
	/* raw login: the session must exist, be alive and have passed the DNS login - but may come from ANY address */
	_Bool rawlogin_ok = uid == 0 && slot.active && !slot.disabled && slot.authenticated && !(slot.last_pkt + 60 < g_now);
	/* raw data/ping: live, own source, DNS login and raw login */
	_Bool rawauth = LIVE0(uid) && slot.authenticated && slot.authenticated_raw;
	int r = raw_decode(packet, len, &g_q, 8, (struct dnsfd *)0, 7);
	_Bool hash_ok = 1;
	for (i = 0; i < 16; i++) hash_ok = hash_ok && sub[i] == g_login_out[i];
	__CPROVER_assert(r == hdr, "raw_decode claims exactly the datagrams that start with the raw header");
	__CPROVER_assert(hdr || (PRIV_UNCHANGED(s0) && slot.last_pkt == s0.last_pkt && g_sendto == 0 && g_tun_writes == 0 && g_full_calls == 0), "anything else is left to the DNS decoder untouched");
	__CPROVER_assert(g_answers == 0 || g_full_calls == 1, "raw frames are never answered with DNS messages (a delivered packet forwarded to a DNS-mode session may release that session's held query)");
	if (hdr && cmd == RAW_HDR_CMD_LOGIN) {
		_Bool accepted = rawlogin_ok && len >= 20 && hash_ok;
		__CPROVER_assert(!accepted || (g_login_calls == 2 && g_login_seed == (int)((unsigned)s0.seed + 1u) && g_login_seed2 == (int)((unsigned)s0.seed - 1u)), "raw login is verified against challenge+1 and answered with challenge-1");
		__CPROVER_assert(accepted ? slot.authenticated_raw == 1 : slot.authenticated_raw == s0.authenticated_raw, "the raw login flag is set exactly on a correct response from an authenticated live session");
		__CPROVER_assert(accepted || (PRIV_UNCHANGED(s0) && slot.last_pkt == s0.last_pkt && g_sendto == 0), "a wrong, short, stale or unauthenticated raw login changes nothing and gets no reply");
		__CPROVER_assert(!accepted || (slot.conn == CONN_RAW_UDP && slot.hostlen == g_q.fromlen && g_sendto == 1 && g_sent_len == 20 && g_sent[3] == (RAW_HDR_CMD_LOGIN | 0) && g_sent_to == (const void *)&g_q.from), "an accepted raw login rebinds the session to the sender, switches it to raw mode and sends the 16-byte reply there");
		__CPROVER_assert(slot.authenticated == s0.authenticated && slot.seed == s0.seed && slot.fragsize == s0.fragsize && slot.encoder == s0.encoder && slot.downenc == s0.downenc && slot.lazy == s0.lazy, "raw login touches no other setting");
		__CPROVER_assert(g_tun_writes == 0 && g_full_calls == 0, "no delivery on login");
	}
	if (hdr && cmd == RAW_HDR_CMD_DATA) {
		__CPROVER_assert(rawauth || (PRIV_UNCHANGED(s0) && slot.last_pkt == s0.last_pkt && g_full_calls == 0 && g_tun_writes == 0 && g_sendto == 0), "raw data from a session that is not live, from a foreign source, or without DNS and raw login is dropped");
		__CPROVER_assert(!rawauth || (g_full_calls == 1 && s0.in_len >= 0), "authorised raw data is handed to handle_full_packet once");
		__CPROVER_assert(slot.authenticated == s0.authenticated && slot.authenticated_raw == s0.authenticated_raw && slot.seed == s0.seed && slot.conn == s0.conn && slot.hostlen == s0.hostlen, "raw data never changes login state");
	}
	if (hdr && cmd == RAW_HDR_CMD_PING) {
		__CPROVER_assert(rawauth || (PRIV_UNCHANGED(s0) && slot.last_pkt == s0.last_pkt && g_sendto == 0), "raw ping without authorisation changes nothing and gets no reply");
		__CPROVER_assert(!rawauth || (g_sendto == 1 && g_sent_len == 4 && g_sent[3] == (RAW_HDR_CMD_PING | 0)), "authorised raw ping gets one 4-byte reply");
		__CPROVER_assert(g_tun_writes == 0 && g_full_calls == 0 && slot.authenticated == s0.authenticated && slot.authenticated_raw == s0.authenticated_raw && slot.seed == s0.seed && slot.conn == s0.conn, "ping delivers nothing and changes no login state");
	}
	if (hdr && cmd != RAW_HDR_CMD_LOGIN && cmd != RAW_HDR_CMD_DATA && cmd != RAW_HDR_CMD_PING)
		__CPROVER_assert(PRIV_UNCHANGED(s0) && slot.last_pkt == s0.last_pkt && g_sendto == 0 && g_full_calls == 0, "unknown raw commands are ignored");
	__CPROVER_assert(SESSION_WF(slot), "the session invariant is preserved");
	VERIF_REACH();
}
#endif

/* ---- the network-facing functions around the dispatcher -------------------------------------------------------
 * C17 (dispatch on the match result), C10 (NS / A auxiliary answers), C20 (forwarding), C04/C14/C01 (routing of
 * delivered and tun packets).  Calls between these functions are recorders; each is proved on its real body. */
#ifdef H_NET
#ifndef STUB_CONTRACTS
#error "net groups use the contract stubs of the stream helpers"
#endif
#define handle_null_request verif_real_handle_null_request
#define handle_ns_request verif_real_handle_ns_request
#define handle_a_request verif_real_handle_a_request
#define forward_query verif_real_forward_query
#define read_dns verif_real_read_dns
#undef handle_full_packet
#define handle_full_packet verif_real_handle_full_packet

static int g_rd_calls, g_rd_ret, g_hn_calls, g_hn_dl, g_ns_calls, g_ns_off, g_a_calls, g_a_fake, g_fq_calls, g_fq_fd, g_qd_ret, g_qd_calls;
static struct query *g_td_q;
static unsigned short g_cp_type; static char g_cp_n0, g_cp_n1, g_cp_n2, g_cp_n3;      /* ghost copies: type and first characters of the decoded query */
static char g_topdomain[8];
static int verif_stub_read_dns(int dns_fd, struct dnsfd *dns_fds, int tun_fd, struct query *q)
{
	/* contract of read_dns: 0 = nothing to dispatch (error, raw frame, undecodable), else the length of the
	 * NUL-terminated name of a decoded query */
	struct query any;
	g_rd_calls++; g_td_q = q;
	*q = any;
	q->name[sizeof(q->name) - 1] = 0;
	g_cp_type = q->type; g_cp_n0 = q->name[0]; g_cp_n1 = q->name[1]; g_cp_n2 = q->name[2]; g_cp_n3 = q->name[3];
	__CPROVER_assume(q->fromlen <= sizeof(struct sockaddr_storage));
	__CPROVER_assume(g_rd_ret >= 0 && g_rd_ret <= 255);
	if (g_rd_ret > 0) __CPROVER_assume(q->name[g_rd_ret] == 0 && q->name[0] != 0);
	return g_rd_ret;
}
int query_datalen(const char *qname, const char *topdomain_)
{
	/* C17 group query_datalen: -1 = not under the tunnel domain, else the length of the data part */
	__CPROVER_assert(g_td_q && qname == g_td_q->name && topdomain_ == g_topdomain, "query_datalen is asked about the received name and the configured tunnel domain");
	g_qd_calls++;
	__CPROVER_assume(g_qd_ret >= -1 && g_qd_ret <= 255);
	return g_qd_ret;
}
static void verif_stub_handle_null_request(int tun_fd, int dns_fd, struct dnsfd *dns_fds, struct query *q, int domain_len) { g_hn_calls++; g_hn_dl = domain_len; __CPROVER_assert(q == g_td_q, "the received query is passed on"); }
static void verif_stub_handle_ns_request(int dns_fd, struct query *q, int topdomain_offset) { g_ns_calls++; g_ns_off = topdomain_offset; __CPROVER_assert(q == g_td_q, "the received query is passed on"); }
static void verif_stub_handle_a_request(int dns_fd, struct query *q, int fakeip) { g_a_calls++; g_a_fake = fakeip; __CPROVER_assert(q == g_td_q, "the received query is passed on"); }
static void verif_stub_forward_query(int bind_fd, struct query *q) { g_fq_calls++; g_fq_fd = bind_fd; __CPROVER_assert(q == g_td_q, "the received query is passed on"); }

#define LCX(c) (((c) >= 'A' && (c) <= 'Z') ? (c) + 32 : (c))
void h_tunnel_dns(void)
{
	any_server_state();
	int bind_fd = nondet_int();
	g_rd_ret = nondet_int(); g_qd_ret = nondet_int();
	g_rd_calls = g_hn_calls = g_ns_calls = g_a_calls = g_fq_calls = g_qd_calls = 0; g_td_q = 0;
	topdomain = g_topdomain;
	struct snap s0 = take_snap();
	int r = tunnel_dns(7, 8, (struct dnsfd *)0, bind_fd);
	int total = g_hn_calls + g_ns_calls + g_a_calls + g_fq_calls;
	__CPROVER_assert(r == 0 && g_rd_calls == 1, "one datagram is read per call");
	__CPROVER_assert(total <= 1, "a query is handled by at most one handler");
	__CPROVER_assert(g_rd_ret > 0 || total == 0, "nothing is dispatched when no query was decoded");
	__CPROVER_assert(PRIV_UNCHANGED(s0) && g_answers == 0 && g_sendto == 0 && g_tun_writes == 0, "tunnel_dns itself touches no session and emits nothing (only the handlers do)");
	if (g_rd_ret > 0) {
		/* C17: names outside the tunnel domain are never handled as tunnel traffic; they are forwarded iff -b was given */
		__CPROVER_assert(g_qd_ret >= 0 || (g_hn_calls == 0 && g_ns_calls == 0 && g_a_calls == 0), "a name outside the tunnel domain reaches no tunnel handler");
		__CPROVER_assert(g_qd_ret >= 0 || g_fq_calls == (bind_fd != 0), "a name outside the tunnel domain is forwarded exactly when forwarding is enabled");
		__CPROVER_assert(g_qd_ret < 0 || g_fq_calls == 0, "a name under the tunnel domain is never forwarded");
		__CPROVER_assert(!g_fq_calls || g_fq_fd == bind_fd, "forwarding uses the forwarding socket");
		__CPROVER_assert(!g_hn_calls || g_hn_dl == g_qd_ret, "the tunnel handler gets exactly the data length reported by the matcher");
		__CPROVER_assert(!g_ns_calls || g_ns_off == g_qd_ret, "the NS handler gets the offset of the matched domain");
		/* C10: NS queries under the domain get the NS answer, A queries for ns./www. get an address record */
		_Bool is_ns = g_qd_ret == 3 && g_cp_type == T_A && LCX(g_cp_n0) == 'n' && LCX(g_cp_n1) == 's' && g_cp_n2 == '.';
		_Bool is_www = g_qd_ret == 4 && g_cp_type == T_A && LCX(g_cp_n0) == 'w' && LCX(g_cp_n1) == 'w' && LCX(g_cp_n2) == 'w' && g_cp_n3 == '.';
		_Bool tunnel_type = g_cp_type == T_NULL || g_cp_type == T_PRIVATE || g_cp_type == T_CNAME || g_cp_type == T_A || g_cp_type == T_MX || g_cp_type == T_SRV || g_cp_type == T_TXT;
		if (g_qd_ret >= 0) {
			__CPROVER_assert(g_a_calls == (is_ns || is_www) && (!is_ns || g_a_fake == 0) && (!is_www || g_a_fake == 1), "A queries for ns.<domain> get the server address, for www.<domain> the placeholder, and no other query gets an address answer");
			__CPROVER_assert(g_ns_calls == (g_cp_type == T_NS), "exactly the NS queries under the tunnel domain get the NS answer");
			__CPROVER_assert(g_hn_calls == (tunnel_type && !is_ns && !is_www), "exactly the queries of a tunnel record type reach the request dispatcher");
		}
	}
	VERIF_REACH();
}


/* ---- stubs of other translation units used by these functions (contracts proved in their own groups) ---------- */
static int g_enc_calls, g_enc_ret, g_enc_qr; static const void *g_enc_q, *g_enc_data, *g_enc_buf; static size_t g_enc_datalen, g_enc_buflen;
int dns_encode(char *buf, size_t buflen, struct query *q, qr_t qr, const char *data, size_t datalen)
{
	/* groups dnsenc_*: writes a message of the returned length (at most buflen) into buf, -1/0 if it does not fit */
	__CPROVER_assert(__CPROVER_w_ok(buf, buflen), "dns_encode: output writable for buflen bytes");
	g_enc_calls++; g_enc_q = q; g_enc_qr = qr; g_enc_data = data; g_enc_datalen = datalen; g_enc_buf = buf; g_enc_buflen = buflen;
	__CPROVER_assume(g_enc_ret >= -1 && (size_t)(g_enc_ret < 0 ? 0 : g_enc_ret) <= buflen);
	return g_enc_ret;
}
static const char *g_nsr_domain;
int dns_encode_ns_response(char *buf, size_t buflen, struct query *q, char *topdomain_)
{
	__CPROVER_assert(__CPROVER_w_ok(buf, buflen), "dns_encode_ns_response: output writable for buflen bytes");
	g_enc_calls++; g_enc_q = q; g_nsr_domain = topdomain_; g_enc_buf = buf; g_enc_buflen = buflen;
	__CPROVER_assume(g_enc_ret >= -1 && (size_t)(g_enc_ret < 0 ? 0 : g_enc_ret) <= buflen);
	return g_enc_ret;
}
int dns_encode_a_response(char *buf, size_t buflen, struct query *q)
{
	__CPROVER_assert(__CPROVER_w_ok(buf, buflen), "dns_encode_a_response: output writable for buflen bytes");
	g_enc_calls++; g_enc_q = q; g_enc_buf = buf; g_enc_buflen = buflen;
	__CPROVER_assume(g_enc_ret >= -1 && (size_t)(g_enc_ret < 0 ? 0 : g_enc_ret) <= buflen);
	return g_enc_ret;
}
static int g_put_calls; static struct fw_query g_put;
void fw_query_put(struct fw_query *fw_query) { g_put_calls++; g_put = *fw_query; }
static int g_get_calls, g_get_hit; static unsigned short g_get_id; static struct fw_query g_fw_entry;
void fw_query_get(unsigned short query_id, struct fw_query **fw_query)
{
	/* group fwq_get: the remembered entry with that id, or NULL */
	g_get_calls++; g_get_id = query_id;
	*fw_query = g_get_hit ? &g_fw_entry : (struct fw_query *)0;
}
static int g_gid_calls; static unsigned short g_gid_ret; static const void *g_gid_pkt; static size_t g_gid_len;
unsigned short dns_get_id(char *packet, size_t packetlen) { g_gid_calls++; g_gid_pkt = packet; g_gid_len = packetlen; return g_gid_ret; }
in_addr_t verif_inet_addr(const char *cp)
{
	/* only the literal "127.0.0.1" is ever passed on these paths */
	__CPROVER_assert(cp[0] == '1' && cp[1] == '2' && cp[2] == '7' && cp[3] == '.' && cp[4] == '0' && cp[5] == '.' && cp[6] == '0' && cp[7] == '.' && cp[8] == '1' && cp[9] == 0, "inet_addr is called with the literal 127.0.0.1");
	return htonl(0x7f000001u);
}
static int g_recv_ret; static const void *g_recv_buf;
ssize_t verif_recvfrom(int fd, void *buf, size_t len, int flags, struct sockaddr *from, socklen_t *fromlen)
{
	__CPROVER_assert(__CPROVER_w_ok(buf, len), "recvfrom: buffer writable for len bytes");
	__CPROVER_assume(g_recv_ret >= -1 && (size_t)(g_recv_ret < 0 ? 0 : g_recv_ret) <= len);
	g_recv_buf = buf;
	return g_recv_ret;
}

/* ---- forward_query (C20): remember the asker, re-encode the same question, send to the local DNS port ----------- */
void h_forward_query(void)
{
	any_server_state();
	int bind_fd = nondet_int();
	bind_port = nondet_int();
	__CPROVER_assume(bind_port >= 1 && bind_port <= 65535);
	g_enc_ret = nondet_int(); g_enc_calls = g_put_calls = 0;
	size_t nlen = nondet_size_t();
	__CPROVER_assume(nlen <= 255 && g_q.name[nlen] == 0);
	__CPROVER_assume(g_q.fromlen >= sizeof(struct sockaddr_in));      /* read_dns stores sizeof(struct sockaddr_storage) for every datagram */
	struct sockaddr_storage from0 = g_q.from;
	socklen_t fromlen0 = g_q.fromlen;
	unsigned short id0 = g_q.id, type0 = g_q.type;
	struct snap s0 = take_snap();
	forward_query(bind_fd, &g_q);
	__CPROVER_assert(g_enc_calls == 1 && g_enc_q == &g_q && g_enc_qr == QR_QUERY && g_enc_data == (const void *)g_q.name, "the query is re-encoded as a query from the received query object (same id, name and type: groups dnsenc_query)");
	__CPROVER_assert(g_q.id == id0 && g_q.type == type0, "id and type of the query are not modified before re-encoding");
	__CPROVER_assert(g_enc_ret >= 1 || (g_put_calls == 0 && g_sendto == 0), "nothing is remembered or sent when the query cannot be encoded");
	if (g_enc_ret >= 1) {
		__CPROVER_assert(g_put_calls == 1 && g_put.id == id0 && g_put.addrlen == (int)fromlen0, "the asker is remembered under the query's id");
		__CPROVER_assert(!(g_m < fromlen0) || ((unsigned char *)&g_put.addr)[g_m] == ((unsigned char *)&from0)[g_m], "the remembered address is the address the query came from");
		__CPROVER_assert(g_sendto == 1 && g_sent_fd == bind_fd && g_sent_buf == g_enc_buf && g_sent_len == (size_t)g_enc_ret, "exactly the encoded query is sent once on the forwarding socket");
		__CPROVER_assert(g_sent_to == (const void *)&g_q.from && ((struct sockaddr_in *)&g_q.from)->sin_addr.s_addr == htonl(0x7f000001u) && ((struct sockaddr_in *)&g_q.from)->sin_port == htons((unsigned short)bind_port), "to the local DNS port 127.0.0.1:bind_port");
		__CPROVER_assert(((struct sockaddr_in *)&g_q.from)->sin_family == AF_INET && g_sent_tolen >= sizeof(struct sockaddr_in), "the destination is an IPv4 socket address (the forwarding socket is an IPv4 socket), whatever family the query arrived on");
	}
	__CPROVER_assert(PRIV_UNCHANGED(s0) && g_answers == 0 && g_tun_writes == 0, "forwarding touches no session");
	VERIF_REACH();
}

/* ---- tunnel_bind (C20): relay the reply to the remembered asker, drop it when nobody asked ---------------------- */
void h_tunnel_bind(void)
{
	any_server_state();
	int bind_fd = nondet_int();
	struct dnsfd fds = { nondet_int(), nondet_int() };
	g_recv_ret = nondet_int(); g_gid_ret = (unsigned short)nondet_int(); g_get_hit = nondet_bool();
	__CPROVER_havoc_object(&g_fw_entry);
	__CPROVER_assume(g_fw_entry.addrlen >= 0 && g_fw_entry.addrlen <= (int)sizeof(struct sockaddr_storage));
	g_gid_calls = g_get_calls = 0;
	struct snap s0 = take_snap();
	struct fw_query entry0 = g_fw_entry;
	int r = tunnel_bind(bind_fd, &fds);
	/* C20: the ring is written by fw_query_put only (that is what the ring lemma of group fwq_ring relies on): relaying a
	 * reply leaves the remembered entry as it is, so that it keeps answering for its id and nothing else */
	__CPROVER_assert(g_fw_entry.id == entry0.id && g_fw_entry.addrlen == entry0.addrlen && (!(g_m < sizeof(g_fw_entry.addr)) || ((unsigned char *)&g_fw_entry.addr)[g_m] == ((unsigned char *)&entry0.addr)[g_m]), "relaying a reply does not modify the remembered entry (id, address, length)");
	__CPROVER_assert(r == 0, "result 0");
	__CPROVER_assert(g_recv_ret > 0 || g_sendto == 0, "nothing received, nothing relayed");
	if (g_recv_ret > 0) {
		__CPROVER_assert(g_gid_calls == 1 && g_gid_pkt == g_recv_buf && g_gid_len == (size_t)g_recv_ret, "the id is taken from the received reply (its own length)");
		__CPROVER_assert(g_get_calls == 1 && g_get_id == g_gid_ret, "the ring is asked for exactly that id");
		__CPROVER_assert(g_get_hit || g_sendto == 0, "a reply whose id matches no remembered query is sent to nobody");
		__CPROVER_assert(!g_get_hit || (g_sendto == 1 && g_sent_buf == g_recv_buf && g_sent_len == (size_t)g_recv_ret && g_sent_to == (const void *)&g_fw_entry.addr && g_sent_tolen == (socklen_t)g_fw_entry.addrlen), "a matching reply is relayed unchanged (same bytes, same length), once, to the remembered address");
		__CPROVER_assert(!g_get_hit || g_sent_fd == (g_fw_entry.addr.ss_family == AF_INET6 ? fds.v6fd : fds.v4fd), "on the socket of the asker's address family");
	}
	__CPROVER_assert(PRIV_UNCHANGED(s0) && g_answers == 0 && g_tun_writes == 0, "relaying touches no session");
	VERIF_REACH();
}

/* ---- handle_ns_request / handle_a_request (C10): auxiliary answers -------------------------------------------------- */
void h_ns_a_request(void)
{
	any_server_state();
	int off = nondet_int(), fake = nondet_int();
	__CPROVER_assume(off >= 0 && off <= 255);            /* tunnel_dns passes the matcher's result (0..strlen) */
	ns_ip = (in_addr_t)nondet_unsigned();
	g_enc_ret = nondet_int(); g_enc_calls = 0;
	__CPROVER_assume(g_q.dest_len <= sizeof(struct sockaddr_storage));
	struct sockaddr_storage dest0 = g_q.destination;
	struct snap s0 = take_snap();
	_Bool ns = nondet_bool();
	if (ns) {
		handle_ns_request(8, &g_q, off);
		__CPROVER_assert(g_enc_calls == 1 && g_enc_q == &g_q && g_nsr_domain == g_q.name + off, "the NS answer is built for the received query with the matched domain part of its own name");
		__CPROVER_assert(ns_ip == INADDR_ANY ? g_q.destination.ss_family == dest0.ss_family : (g_q.destination.ss_family == AF_INET && ((struct sockaddr_in *)&g_q.destination)->sin_addr.s_addr == ns_ip), "the glue address is the configured one, else the address the query was sent to");
	} else {
		handle_a_request(8, &g_q, fake);
		_Bool have4 = fake || ns_ip != INADDR_ANY || dest0.ss_family == AF_INET;
		__CPROVER_assert(g_enc_calls == have4, "an address answer is built exactly when an IPv4 address is known");
		__CPROVER_assert(!fake || ((struct sockaddr_in *)&g_q.destination)->sin_addr.s_addr == htonl(0x7f000001u), "www.<domain> is answered with the placeholder address");
		__CPROVER_assert(fake || ns_ip == INADDR_ANY || ((struct sockaddr_in *)&g_q.destination)->sin_addr.s_addr == ns_ip, "ns.<domain> is answered with the configured address");
		__CPROVER_assert(!g_enc_calls || g_q.destination.ss_family == AF_INET, "the address record carries an IPv4 address");
	}
	__CPROVER_assert(g_sendto == (g_enc_calls == 1 && g_enc_ret >= 1), "one datagram when the answer could be built, none otherwise");
	__CPROVER_assert(!g_sendto || (g_sent_fd == 8 && g_sent_buf == g_enc_buf && g_sent_len == (size_t)g_enc_ret && g_sent_to == (const void *)&g_q.from && g_sent_tolen == g_q.fromlen), "exactly the built message goes back to the asker");
	__CPROVER_assert(PRIV_UNCHANGED(s0) && g_answers == 0 && g_tun_writes == 0, "auxiliary answers touch no session");
	VERIF_REACH();
}
#endif


/* ---- routing of delivered packets and of packets from the tun device, on a TWO-slot session table ----------------
 * (C04: a packet for tunnel address A goes only to the live logged-in session that owns A, otherwise it is dropped;
 *  C01: the bytes handed on are exactly the bytes received / inflated; C14: a held query is answered at most once)
 * handle_full_packet(sender = slot 0) and tunnel_tun, destination slot t in {-1, 0, 1} chosen by the contract stub of
 * find_user_by_ip (proved on the 16-slot table in group find_user_by_ip).  Slot indices are literals by case split. */
#if defined(H_NET) && defined(VERIF_NSLOTS) && VERIF_NSLOTS == 2
static int g_fubi_ret, g_fubi_calls; static in_addr_t g_fubi_ip; static _Bool g_fubi_is_dst;
static const void *g_unz_dst, *g_rt_buf;
int find_user_by_ip(uint32_t ip)
{
	g_fubi_calls++; g_fubi_ip = ip;
	{	/* ghost: is this the destination address of the packet at hand (inflated packet / packet read from tun, behind the 4-byte tun header)? */
		const char *pkt = g_unz_dst ? (const char *)g_unz_dst : (const char *)g_rt_buf;
		g_fubi_is_dst = pkt && ip == ((const struct ip *)(pkt + 4))->ip_dst.s_addr;
	}
	/* contract: -1, or the first live, logged-in session that owns the address.  The three outcomes are separate
	 * obligation groups (H_DEST = -1, 0, 1) so that the slot index is a literal in each */
#ifndef H_DEST
#define H_DEST -1
#endif
	__CPROVER_assume(g_fubi_ret == H_DEST);
#if H_DEST >= 0
	__CPROVER_assume(users[H_DEST].active && users[H_DEST].authenticated && !users[H_DEST].disabled && users[H_DEST].last_pkt + 60 > g_now && users[H_DEST].tun_ip == ip);
#endif
	return H_DEST;
}
static int g_unz_calls, g_unz_rc; static const void *g_unz_src; static unsigned long g_unz_srclen, g_unz_out;
int verif_uncompress(unsigned char *dest, unsigned long *destLen, const unsigned char *source, unsigned long sourceLen)
{
	/* zlib (external, A7): writes at most *destLen bytes, sets *destLen on success; the output buffer is an uninitialised local = arbitrary */
	__CPROVER_assert(__CPROVER_w_ok(dest, *destLen), "uncompress: output writable for *destLen bytes");
	__CPROVER_assert(sourceLen == 0 || __CPROVER_r_ok(source, sourceLen), "uncompress: input readable for sourceLen bytes");
	g_unz_calls++; g_unz_src = source; g_unz_srclen = sourceLen; g_unz_dst = dest;
	unsigned long n = nondet_size_t();
	__CPROVER_assume(n <= *destLen);
	g_unz_rc = nondet_bool() ? 0 : -3;
	if (g_unz_rc == 0) { *destLen = n; g_unz_out = n; }
	return g_unz_rc;
}
static int g_z_calls; static const void *g_z_src, *g_z_dst; static unsigned long g_z_srclen, g_z_out;
int verif_compress2(unsigned char *dest, unsigned long *destLen, const unsigned char *source, unsigned long sourceLen, int level)
{
	__CPROVER_assert(__CPROVER_w_ok(dest, *destLen), "compress2: output writable for *destLen bytes");
	__CPROVER_assert(sourceLen == 0 || __CPROVER_r_ok(source, sourceLen), "compress2: input readable for sourceLen bytes");
	g_z_calls++; g_z_src = source; g_z_srclen = sourceLen; g_z_dst = dest;
	unsigned long n = nondet_size_t();
	__CPROVER_assume(n <= *destLen);
	*destLen = n; g_z_out = n;
	return 0;
}
static int g_rt_ret, g_rt_calls;
ssize_t read_tun(int fd, char *buf, size_t len)
{
	__CPROVER_assert(__CPROVER_w_ok(buf, len), "read_tun: buffer writable for len bytes");
	g_rt_calls++; g_rt_buf = buf;
	__CPROVER_assume(g_rt_ret >= -1 && (size_t)(g_rt_ret < 0 ? 0 : g_rt_ret) <= len);
	return g_rt_ret;
}
#define CAPLEN(n) ((n) < (int)sizeof(users[0].outpacket.data) ? (n) : (int)sizeof(users[0].outpacket.data))
/* contracts of the outpacket helpers (group srv_outpacket_queue), slot index literal at every call site */
static int g_new_calls, g_new_user, g_new_n, g_save_calls, g_save_user, g_save_n; static const void *g_new_src, *g_save_src;
static void verif_stub_start_new_outpacket(int userid, char *data, int datalen)
{
	__CPROVER_assert(userid == 0 || userid == 1, "start_new_outpacket: existing session");
	__CPROVER_assert(datalen >= 0 && (datalen == 0 || __CPROVER_r_ok(data, CAPLEN(datalen))), "start_new_outpacket: source readable for the bytes copied");
	g_new_calls++; g_new_user = userid; g_new_src = data; g_new_n = datalen;
	users[userid].outpacket.len = CAPLEN(datalen); users[userid].outpacket.offset = 0; users[userid].outpacket.sentlen = 0;
	users[userid].outpacket.seqno = (users[userid].outpacket.seqno + 1) & 7; users[userid].outpacket.fragment = 0; users[userid].outfragresent = 0;
	verif_any_payload(&users[userid].outpacket);
}
static int verif_stub_save_to_outpacketq(int userid, char *data, int datalen)
{
	__CPROVER_assert(userid == 0 || userid == 1, "save_to_outpacketq: existing session");
	__CPROVER_assert(datalen >= 0 && (datalen == 0 || __CPROVER_r_ok(data, CAPLEN(datalen))), "save_to_outpacketq: source readable for the bytes copied");
	g_save_calls++; g_save_user = userid; g_save_src = data; g_save_n = datalen;
	if (users[userid].outpacketq_filled >= OUTPACKETQ_LEN) return 0;
	users[userid].outpacketq_filled++;
	return 1;
}
struct snap2 { int active, authenticated, authenticated_raw, q_id, qs_id, out_len, out_off, in_len, in_off, qfilled, qnext, fragsize; char out_seq, out_frag; enum connection conn; time_t last_pkt; unsigned short q_id2, qs_id2; };
#define TAKE2(u) { (u).active, (u).authenticated, (u).authenticated_raw, (u).q.id, (u).q_sendrealsoon.id, (u).outpacket.len, (u).outpacket.offset, (u).inpacket.len, (u).inpacket.offset, (u).outpacketq_filled, (u).outpacketq_nexttouse, (u).fragsize, (u).outpacket.seqno, (u).outpacket.fragment, (u).conn, (u).last_pkt, (u).q.id2, (u).q_sendrealsoon.id2 }
#define SAME2(u, s) ((u).active == (s).active && (u).authenticated == (s).authenticated && (u).authenticated_raw == (s).authenticated_raw && (u).q.id == (s).q_id && (u).q_sendrealsoon.id == (s).qs_id && \
	(u).outpacket.len == (s).out_len && (u).outpacket.offset == (s).out_off && (u).inpacket.len == (s).in_len && (u).inpacket.offset == (s).in_off && (u).outpacketq_filled == (s).qfilled && (u).outpacketq_nexttouse == (s).qnext && \
	(u).fragsize == (s).fragsize && (u).outpacket.seqno == (s).out_seq && (u).outpacket.fragment == (s).out_frag && (u).conn == (s).conn && (u).last_pkt == (s).last_pkt && (u).q.id2 == (s).q_id2 && (u).q_sendrealsoon.id2 == (s).qs_id2)
/* everything of a slot except its upstream reassembly position */
#define SAME2_BUT_IN(u, s) ((u).active == (s).active && (u).authenticated == (s).authenticated && (u).authenticated_raw == (s).authenticated_raw && (u).q.id == (s).q_id && (u).q_sendrealsoon.id == (s).qs_id && \
	(u).outpacket.len == (s).out_len && (u).outpacket.offset == (s).out_off && (u).outpacketq_filled == (s).qfilled && (u).outpacketq_nexttouse == (s).qnext && \
	(u).fragsize == (s).fragsize && (u).outpacket.seqno == (s).out_seq && (u).outpacket.fragment == (s).out_frag && (u).conn == (s).conn && (u).last_pkt == (s).last_pkt && (u).q.id2 == (s).q_id2 && (u).q_sendrealsoon.id2 == (s).qs_id2)
static void any_server_state2(void)
{
	any_server_state();
	created_users = 2;
	__CPROVER_assume(SESSION_WF(users[1]));
	__CPROVER_assume(users[0].conn == CONN_DNS_NULL || users[0].conn == CONN_RAW_UDP);      /* user_set_conn_type admits nothing else */
	__CPROVER_assume(users[1].conn == CONN_DNS_NULL || users[1].conn == CONN_RAW_UDP);
	g_chunk_calls = g_fubi_calls = g_unz_calls = g_z_calls = g_rt_calls = g_cpy_calls = 0; g_chunk_user = -1; g_unz_dst = 0; g_rt_buf = 0; g_new_calls = g_save_calls = 0;
}
#define TOK(u) (((u).q.id != 0 ? 1 + ((u).q.id2 != 0) : 0) + ((u).q_sendrealsoon.id != 0 ? 1 + ((u).q_sendrealsoon.id2 != 0) : 0))

/* what the destination slot must look like after a packet of n bytes (source src) was handed to it; t is a literal */
#define CHECK_DELIVERY_TO(t, st, src, n) do { \
	if ((st).conn == CONN_DNS_NULL) { \
		__CPROVER_assert(g_sendto == 0, "a DNS-mode destination gets no raw datagram"); \
		if ((st).out_len == 0) { \
			__CPROVER_assert(g_new_calls == 1 && g_save_calls == 0 && g_new_user == t && g_new_src == (const void *)(src) && g_new_n == (n), "the packet becomes the destination's next downstream packet as is (same bytes, same length)"); \
			__CPROVER_assert(g_chunk_calls <= 1 && (g_chunk_calls == 0 || g_chunk_user == t) && g_chunk_calls == ((st).q_id != 0 || (st).qs_id != 0), "a query held by the destination session is answered at once, exactly one, and nobody else's"); \
		} else { \
			__CPROVER_assert(g_chunk_calls == 0 && g_answers == 0, "a busy destination only queues the packet, nothing is emitted"); \
			__CPROVER_assert(users[t].outpacket.len == (st).out_len && users[t].outpacket.offset == (st).out_off && users[t].outpacket.seqno == (st).out_seq && users[t].outpacket.fragment == (st).out_frag, "the packet in flight is not disturbed"); \
			__CPROVER_assert(g_save_calls == 1 && g_new_calls == 0 && g_save_user == t && g_save_src == (const void *)(src) && g_save_n == (n), "the packet is offered to the destination's queue as is (same bytes, same length)"); \
		} \
	} else { \
		__CPROVER_assert(g_answers == 0 && g_chunk_calls == 0 && g_new_calls == 0 && g_save_calls == 0, "a raw-mode destination gets no DNS answer and no downstream packet"); \
		__CPROVER_assert(g_sendto == 1 && g_sent_to == (const void *)&users[t].q.from && g_sent[3] == (RAW_HDR_CMD_DATA | t), "one raw data datagram to the destination session's address, marked with its userid"); \
		__CPROVER_assert(SAME2_BUT_IN(users[t], st), "raw delivery changes nothing in the destination session"); \
	} } while (0)

void h_full_packet(void)
{
	any_server_state2();
	struct dnsfd fds = { 11, 12 };
	g_fubi_ret = nondet_int();
	__CPROVER_assume(g_fubi_ret >= -1 && g_fubi_ret <= 1);
	struct snap2 a0 = TAKE2(users[0]), a1 = TAKE2(users[1]);
	int inlen0 = users[0].inpacket.len;
	int before = TOK(users[0]) + TOK(users[1]);
	handle_full_packet(7, &fds, 0);
	__CPROVER_assert(g_unz_calls == 1 && g_unz_src == (const void *)users[0].inpacket.data && g_unz_srclen == (unsigned long)inlen0, "zlib is given exactly the sender's reassembled bytes");
	__CPROVER_assert(users[0].inpacket.len == 0 && users[0].inpacket.offset == 0, "the reassembly buffer is released");
	__CPROVER_assert(g_answers + TOK(users[0]) + TOK(users[1]) <= before, "no surplus answer: every answer consumes a held query");
	if (g_unz_rc != 0) {
		__CPROVER_assert(g_tun_writes == 0 && g_sendto == 0 && g_answers == 0 && g_fubi_calls == 0 && SAME2_BUT_IN(users[0], a0) && SAME2(users[1], a1), "a packet that does not inflate is dropped: nothing delivered, forwarded or changed");
	} else {
		__CPROVER_assert(g_fubi_calls == 1 && g_fubi_is_dst, "the destination is looked up by the destination address of the inflated packet");
		if (g_fubi_ret == -1) {
			__CPROVER_assert(g_tun_writes == 1 && g_tun_data == g_unz_dst && g_tun_len == g_unz_out, "a packet for no session goes to the tun device: exactly zlib's bytes and length");
			__CPROVER_assert(g_sendto == 0 && g_answers == 0 && SAME2_BUT_IN(users[0], a0) && SAME2(users[1], a1), "and nothing else happens");
		} else if (g_fubi_ret == 0) {
			__CPROVER_assert(g_tun_writes == 0 && SAME2(users[1], a1), "a packet for session 0 is not written to tun and does not touch session 1");
			CHECK_DELIVERY_TO(0, a0, users[0].inpacket.data, inlen0);
		} else {
			__CPROVER_assert(g_tun_writes == 0 && SAME2_BUT_IN(users[0], a0), "a packet for session 1 is not written to tun and changes nothing else in the sender's session");
			CHECK_DELIVERY_TO(1, a1, users[0].inpacket.data, inlen0);
		}
	}
	__CPROVER_assert(SESSION_WF(users[0]) && SESSION_WF(users[1]), "the session invariant is preserved");
	VERIF_REACH();
}

void h_tunnel_tun(void)
{
	any_server_state2();
	struct dnsfd fds = { 11, 12 };
	g_fubi_ret = nondet_int(); g_rt_ret = nondet_int();
	__CPROVER_assume(g_fubi_ret >= -1 && g_fubi_ret <= 1);
	struct snap2 a0 = TAKE2(users[0]), a1 = TAKE2(users[1]);
	int before = TOK(users[0]) + TOK(users[1]);
	int r = tunnel_tun(7, &fds);
	__CPROVER_assert(g_rt_calls == 1 && g_tun_writes == 0, "one packet is read, nothing is written back to tun");
	__CPROVER_assert(g_answers + TOK(users[0]) + TOK(users[1]) <= before, "no surplus answer: every answer consumes a held query");
	if (g_rt_ret <= 0 || g_fubi_ret == -1) {
		/* C04: otherwise dropped */
		__CPROVER_assert(r == 0 && g_sendto == 0 && g_answers == 0 && g_chunk_calls == 0 && SAME2(users[0], a0) && SAME2(users[1], a1), "no packet, or a packet for an address no live logged-in session owns: dropped, nothing sent or changed");
	} else {
		__CPROVER_assert(g_fubi_calls == 1 && g_fubi_is_dst, "the session is looked up by the packet's destination address (behind the 4-byte tun header)");
		__CPROVER_assert(g_z_calls == 1 && g_z_src == g_rt_buf && g_z_srclen == (unsigned long)g_rt_ret, "exactly the bytes read from tun are compressed");
		if (g_fubi_ret == 0) {
			__CPROVER_assert(SAME2(users[1], a1), "a packet for session 0 does not touch session 1");
			CHECK_DELIVERY_TO(0, a0, g_z_dst, (int)g_z_out);
		} else {
			__CPROVER_assert(SAME2(users[0], a0), "a packet for session 1 does not touch session 0");
			CHECK_DELIVERY_TO(1, a1, g_z_dst, (int)g_z_out);
		}
	}
	__CPROVER_assert(SESSION_WF(users[0]) && SESSION_WF(users[1]), "the session invariant is preserved");
	VERIF_REACH();
}
#endif
