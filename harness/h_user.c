/* C18 / C04 (slot table): src/user.c.  The text verified is `gcc -E user.c` with the two
 * must-fire rules of DESIGN 4.4 (struct packet.data[64*1024] -> [8], dnscache_answer[4][4096]
 * -> [4][8]); user.c never touches packet payloads.  16 slots, literal loop bounds. */
#ifdef VERIF_SHRUNK_TU
#define time verif_time
#define snprintf verif_snprintf
#define inet_addr verif_inet_addr
#define calloc verif_calloc
#include VERIF_SHRUNK_TU
#undef time
#undef snprintf
#undef inet_addr
#undef calloc
#else
#include <user.c>
#endif
#define VERIF_REACH() __CPROVER_assert(0, "VERIF_REACH: code after the call is reachable (must fail)")
int nondet_int(void);
unsigned nondet_unsigned(void);
long nondet_long(void);

/* ---- assumed library contracts ---------------------------------------------------------- */
static time_t g_now;                       /* the clock is constant within one event */
time_t verif_time(time_t *t) { return g_now; }
/* snprintf(buf, n, "0.0.0.%d", v) followed by inet_addr(buf) yields the address 0.0.0.v
 * (v in 1..255) in network byte order */
static int g_last_d;
int verif_snprintf(char *buf, size_t n, const char *fmt, int v)
{
	__CPROVER_assert(v >= 1 && v <= 255, "init_users formats a host number that fits one octet");
	__CPROVER_assert(n >= 10, "snprintf buffer holds 0.0.0.NNN");
	g_last_d = v;
	return 8;
}
in_addr_t verif_inet_addr(const char *s) { return htonl((uint32_t)g_last_d); }

/* calloc(n, sizeof(struct tun_user)) with n <= 16: a fresh zeroed table */
static struct tun_user verif_table[16];
void *verif_calloc(size_t n, size_t sz)
{
	__CPROVER_assert(n <= 16 && sz == sizeof(struct tun_user), "init_users allocates at most 16 slots");
	return verif_table;
}
#define OWNER(k, ip) (users[k].active && users[k].authenticated && !users[k].disabled && users[k].last_pkt + 60 > g_now && (ip) == users[k].tun_ip)
#define AVAIL(k) ((!users[k].active || users[k].last_pkt + 60 < g_now) && !users[k].disabled)
#define FORALL_SLOTS(k) for (int k = 0; k < 16; k++) if ((unsigned)k < usercount)

static struct tun_user any_tab[16];
static void any_table(void)
{
	usercount = nondet_unsigned();
	__CPROVER_assume(usercount <= 16);
	__CPROVER_havoc_object(any_tab);            /* 16 slots, arbitrary content; usercount of them in use */
	users = any_tab;
	g_now = nondet_long();
	__CPROVER_assume(g_now >= 0 && g_now < (1L << 40));
	FORALL_SLOTS(k) __CPROVER_assume(users[k].last_pkt >= 0 && users[k].last_pkt < (1L << 40));
}

void h_init_users(void)
{
	in_addr_t my_ip = nondet_unsigned();
	int netbits = nondet_int();
	__CPROVER_assume(netbits >= 8 && netbits <= 30);
	uint32_t mask = htonl(0xffffffffu << (32 - netbits));
	uint32_t hostmax = (1u << (32 - netbits)) - 1;
	int r = init_users(my_ip, netbits);
	int want = (int)(hostmax + 1 - 3) < 16 ? (int)(hostmax + 1 - 3) : 16;
	__CPROVER_assert(r == want && usercount == (unsigned)want, "init_users creates min(16, subnet size - 3) sessions");
	FORALL_SLOTS(i) {
		for (int j = 0; j < i; j++)
			__CPROVER_assert(users[i].tun_ip != users[j].tun_ip, "session addresses are pairwise distinct");
		__CPROVER_assert((users[i].tun_ip & mask) == (my_ip & mask), "session address is inside the server's subnet");
		__CPROVER_assert(users[i].tun_ip != my_ip, "session address is not the server's own address");
		__CPROVER_assert(ntohl(users[i].tun_ip & ~mask) != 0, "session address is not the network address");
		__CPROVER_assert(ntohl(users[i].tun_ip & ~mask) != hostmax, "session address is not the broadcast address");
		__CPROVER_assert(users[i].id == i && !users[i].active && !users[i].authenticated && !users[i].authenticated_raw && !users[i].disabled && !users[i].options_locked, "new sessions are inactive and unauthenticated");
	}
	VERIF_REACH();
}

void h_find_user_by_ip(void)
{
	any_table();
	uint32_t ip = nondet_unsigned();
	int b_active[16], b_auth[16]; in_addr_t b_ip[16]; time_t b_last[16];
	FORALL_SLOTS(k) { b_active[k] = users[k].active; b_auth[k] = users[k].authenticated; b_ip[k] = users[k].tun_ip; b_last[k] = users[k].last_pkt; }
	int r = find_user_by_ip(ip);
	__CPROVER_assert(r >= -1 && r < (int)usercount, "find_user_by_ip result range");
	FORALL_SLOTS(k) {
		__CPROVER_assert(k != r || OWNER(k, ip), "find_user_by_ip returns only the live, logged-in session that owns the address");
		__CPROVER_assert(!(r < 0 || k < r) || !OWNER(k, ip), "find_user_by_ip: no earlier (or, on -1, no) slot owns the address");
		__CPROVER_assert(users[k].active == b_active[k] && users[k].authenticated == b_auth[k] && users[k].tun_ip == b_ip[k] && users[k].last_pkt == b_last[k], "find_user_by_ip does not change the table");
	}
	VERIF_REACH();
}

void h_find_available_user(void)
{
	any_table();
	struct { int active, authenticated, authenticated_raw, seed, fragsize, options_locked; in_addr_t tun_ip; time_t last_pkt; enum connection conn; _Bool avail; } b[16];
	FORALL_SLOTS(k) {
		b[k].active = users[k].active; b[k].authenticated = users[k].authenticated; b[k].authenticated_raw = users[k].authenticated_raw;
		b[k].seed = users[k].seed; b[k].fragsize = users[k].fragsize; b[k].options_locked = users[k].options_locked; b[k].tun_ip = users[k].tun_ip;
		b[k].last_pkt = users[k].last_pkt; b[k].conn = users[k].conn; b[k].avail = AVAIL(k);
	}
	int r = find_available_user();
	__CPROVER_assert(r >= -1 && r < (int)usercount, "find_available_user result range");
	FORALL_SLOTS(k) {
		/* C04: a slot whose session was active during the last 60 seconds is never taken */
		__CPROVER_assert(k != r || b[k].avail, "find_available_user takes only a slot that is unused or silent for more than 60 s (and not disabled)");
		__CPROVER_assert(!(r < 0 || k < r) || !b[k].avail, "find_available_user takes the first such slot, -1 only if there is none");
		__CPROVER_assert(k != r || (users[k].active == 1 && users[k].authenticated == 0 && users[k].authenticated_raw == 0 && users[k].options_locked == 0 &&
					   users[k].last_pkt == g_now && users[k].conn == CONN_DNS_NULL), "the taken slot is reset: active, not authenticated, not raw, options unlocked, DNS mode");
		__CPROVER_assert(k == r || (users[k].active == b[k].active && users[k].authenticated == b[k].authenticated && users[k].authenticated_raw == b[k].authenticated_raw &&
					   users[k].last_pkt == b[k].last_pkt && users[k].seed == b[k].seed && users[k].tun_ip == b[k].tun_ip && users[k].conn == b[k].conn &&
					   users[k].fragsize == b[k].fragsize && users[k].options_locked == b[k].options_locked), "every other slot is unchanged");
	}
	VERIF_REACH();
}

void h_all_users_waiting(void)
{
	any_table();
	int r = all_users_waiting_to_send();
	__CPROVER_assert(r == 0 || r == 1, "all_users_waiting_to_send is boolean");
	VERIF_REACH();
}

void h_user_setters(void)
{
	any_table();
	int userid = nondet_int(), c = nondet_int();
	enum connection b_conn[16]; const struct encoder *b_enc[16];
	FORALL_SLOTS(k) { b_conn[k] = users[k].conn; b_enc[k] = users[k].encoder; }
	const struct encoder *e = (const struct encoder *)0;
	user_switch_codec(userid, e);
	user_set_conn_type(userid, (enum connection)c);
	FORALL_SLOTS(k) {
		__CPROVER_assert(k == userid || (users[k].conn == b_conn[k] && users[k].encoder == b_enc[k]), "setters touch only the named slot, nothing for an out-of-range userid");
		__CPROVER_assert(users[k].conn == b_conn[k] || (c >= CONN_RAW_UDP && c < CONN_MAX), "connection type stays within the enum");
	}
	VERIF_REACH();
}
