/* C17: check_topdomain / query_datalen against the reference semantics of spec/domain.h.
 * Both loops are bounded by the functions' own limits (a domain longer than 128 is rejected
 * before the loop; names are at most 255 characters), so unwinding to that bound with
 * unwinding assertions is exhaustive, not a sample. */
#include <string.h>
#include <stdlib.h>
#include <ctype.h>
#include "lib/verif.h"
#include "spec/domain.h"
#if defined(VERIF_CBMC) && !defined(VERIF_WITNESS)
#define VERIF_PROOF 1
/* strings built by the harness have a known length: strlen() of them (or of a suffix) is exact */
static const char *reg_s[2];
static size_t reg_n[2];
size_t nondet_size_t(void);
int nondet_int(void);
static size_t verif_strlen_reg(const char *s)
{
	int k;
	for (k = 0; k < 2; k++)
		if (reg_s[k] && __CPROVER_same_object(s, reg_s[k]) && (size_t)__CPROVER_POINTER_OFFSET(s) <= reg_n[k])
			return reg_n[k] - __CPROVER_POINTER_OFFSET(s);
	__CPROVER_assert(0, "strlen of a string the harness did not build");
	return 0;
}
#define strlen verif_strlen_reg
#endif
#include <common.c>
#ifdef VERIF_PROOF
#undef strlen
#ifndef NMAX
#define NMAX 131
#endif
/* a C string of exactly n characters in an object of exactly n+1 bytes */
static char *mk_string(size_t n, size_t cap, int slot)
{
	char *s = malloc(n + 1);
	__CPROVER_assume(__CPROVER_forall { int k_; (0 <= k_ && k_ < NMAX) ==> ((size_t)k_ >= n || s[k_] != 0) });
	s[n] = 0;
	reg_s[slot] = s;
	reg_n[slot] = n;
	return s;
}

void h_check_topdomain(void)
{
	size_t n = nondet_size_t();
	int allow = nondet_int();
	__CPROVER_assume(n < NMAX);
	char *s = mk_string(n, NMAX, 0);
	char *msg = 0;
	int r = check_topdomain(s, allow, nondet_int() ? &msg : 0);
	__CPROVER_assert((r == 0) == (spec_topdomain_ok(s, (int)n, allow) != 0), "check_topdomain accepts exactly the domains of the reference semantics");
	__CPROVER_assert(r == 0 || r == 1, "check_topdomain returns 0 or 1");
	VERIF_REACH();
}

#ifndef QMAX
#define QMAX 255
#endif
#ifndef TMAX
#define TMAX 128
#endif
static char *mk_string2(size_t n, int slot)
{
	char *s = malloc(n + 1);
	__CPROVER_assume(__CPROVER_forall { int k2_; (0 <= k2_ && k2_ < QMAX) ==> ((size_t)k2_ >= n || s[k2_] != 0) });
	s[n] = 0;
	reg_s[slot] = s;
	reg_n[slot] = n;
	return s;
}

void h_query_datalen(void)
{
	size_t ql = nondet_size_t(), tl = nondet_size_t();
	__CPROVER_assume(ql <= QMAX && tl <= TMAX);
	char *q = mk_string2(ql, 0);
	char *t = mk_string(tl, NMAX, 1);
	/* the domain is one that check_topdomain accepted (server side: wildcard allowed) */
	__CPROVER_assume(spec_topdomain_ok(t, (int)tl, 1));
	/* the property's domain: names without two consecutive dots */
	__CPROVER_assume(__CPROVER_forall { int k3_; (0 <= k3_ && k3_ < QMAX) ==> !((size_t)k3_ + 1 < ql && q[k3_] == '.' && q[k3_ + 1] == '.') });
	int r = query_datalen(q, t);
	int want = spec_match(q, (int)ql, t, (int)tl);
	__CPROVER_assert(r == want, "query_datalen == reference matcher (match decision and data length)");
	__CPROVER_assert(r >= -1 && r <= (int)ql, "query_datalen result range");
	VERIF_REACH();
}

/* ---- recent_seqno (C01: duplicate / old-fragment rejection window): "current or up to 3 back", modulo 8 --------- */
void h_recent_seqno(void)
{
	int ours = nondet_int(), got = nondet_int();
	__CPROVER_assume(ours >= 0 && ours <= 7 && got >= 0 && got <= 7);       /* 3-bit sequence numbers at every call site */
	int r = recent_seqno(ours, got);
	int back = (ours - got + 8) % 8;                                        /* how many packets back the received number is */
	__CPROVER_assert(r == (back <= 3), "recent_seqno: 1 exactly for the current sequence number and the three before it (modulo 8), 0 for the four newer ones");
	VERIF_REACH();
}
#endif
