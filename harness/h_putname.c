/* src/read.c putname under contract (C10: every emitted name is a sequence of labels of 1..63 bytes that
 * mirrors the tokens of the dotted string, closed by the root label; C05/C06: memory safety), for names of
 * ANY length up to 1024 - the loop is closed by a loop contract.
 *
 * putname works on a strdup() copy with strtok()/strlen().  Models (assumed contracts, listed in the
 * evidence):
 *   strdup  - a fresh object of n + 1 bytes holding an exact copy (CBMC array copy);
 *   strtok  - the C library semantics for the delimiter ".": skip leading dots, NULL at the end, otherwise a
 *             non-empty run that ends at a dot or at the end; the next call continues behind that dot.
 *             The model does NOT write the NUL over the dot (putname never reads it: it takes the token's
 *             length from strlen, modelled below), so the copy stays equal to the name.  "The run is
 *             maximal / only dots are skipped" is stated for one arbitrary ghost index each, i.e. the
 *             model admits every behaviour of the real strtok (and more);
 *   strlen  - of the current token: the length strtok found;
 *   memcpy  - extents asserted, everything from the destination to the end of the output object becomes
 *             arbitrary (putname writes strictly left to right), one arbitrary ghost byte exact.
 * Ghost bookkeeping in the strtok model: number of tokens, bytes of wire form they need (g_wire), dots
 * skipped as empty labels (g_skipped) with a witness position, and a record of token number g_it
 * (arbitrary): where it starts in the name, its length, and where its length byte belongs in the output. */
#include <string.h>
#include <stdlib.h>
#include <stdint.h>
#include "lib/verif.h"

size_t nondet_size_t(void);
int nondet_int(void);
_Bool nondet_bool(void);

#ifndef NMAX
#define NMAX 255             /* QUERY_NAME_SIZE - 1: every name iodine handles has at most 255 characters */
#endif
static char g_hostbuf[NMAX + 1], g_hbuf[NMAX + 1], g_outbuf[NMAX + 2];
size_t g_n;                 /* strlen(host) */
const char *g_host;
char *g_h;                  /* the strdup copy */
char *g_out;                /* *buf on entry */
size_t g_m;                 /* ghost byte index for memcpy */
size_t g_t1, g_t2;          /* ghost indices of the strtok model */
char *g_save, *g_tok;
size_t g_toklen;
_Bool g_tokdot;             /* the current token is followed by a dot */
size_t g_skipped;           /* characters skipped as empty labels so far (leading / doubled / trailing dots) */
_Bool g_empty_seen; size_t g_empty_at;   /* witness: offset in the name of a dot that belongs to an empty label */
size_t g_ntok, g_wire;      /* tokens returned so far; wire bytes needed by the tokens before the current one */
size_t g_it; _Bool g_rec; size_t g_rec_off, g_rec_len, g_rec_wire;   /* record of token number g_it */

static char *verif_strdup(const char *s)
{
	__CPROVER_assert(s == g_host, "strdup of the name");
	g_h = g_hbuf;
	__CPROVER_array_copy(g_hbuf, g_hostbuf);
	return g_h;
}
static void verif_free(void *p) { __CPROVER_assert(p == g_h, "free of the copy"); }
static char *verif_strtok(char *s, const char *delim)
{
	__CPROVER_assert(delim[0] == '.' && delim[1] == 0, "strtok delimiter is \".\"");
	char *cur = s ? s : g_save;
	if (s) { g_ntok = 0; g_wire = 0; g_skipped = 0; g_empty_seen = 0; g_rec = 0; g_tokdot = 0; g_tok = (char *)0; }
	else if (g_tok) g_wire += g_toklen + 1;              /* the previous token has been consumed */
	if (!cur) { g_tok = (char *)0; return (char *)0; }
	__CPROVER_assert(__CPROVER_same_object(cur, g_h) && __CPROVER_POINTER_OFFSET(cur) <= g_n, "strtok cursor inside the copy");
	size_t rem = g_n - __CPROVER_POINTER_OFFSET(cur);        /* cur[rem] is the final NUL */
	size_t skip = nondet_size_t();
	__CPROVER_assume(skip <= rem && cur[skip] != '.' && (skip == 0 || cur[0] == '.') && (g_t1 >= skip || cur[g_t1] == '.'));
	if (skip > 0 && !g_empty_seen) { g_empty_seen = 1; g_empty_at = __CPROVER_POINTER_OFFSET(cur); }
	g_skipped += skip;
	cur += skip;
	rem -= skip;
	if (*cur == 0) {
		__CPROVER_assume(rem == 0);                          /* n is the length of the name: no NUL before it */
		if (g_tok && g_tokdot) {
			/* the previous token ended with a dot and nothing follows: a trailing dot = empty last label */
			g_skipped += 1;
			if (!g_empty_seen) { g_empty_seen = 1; g_empty_at = g_n - 1; }
		}
		g_save = (char *)0; g_tok = (char *)0;
		return (char *)0;
	}
	size_t len = nondet_size_t();
	__CPROVER_assume(len >= 1 && len <= rem && (cur[len] == '.' || (cur[len] == 0 && len == rem)) && (g_t2 >= len || (cur[g_t2] != '.' && cur[g_t2] != 0)));
	g_tokdot = cur[len] == '.';
	g_save = g_tokdot ? cur + len + 1 : cur + len;
	if (g_ntok == g_it) { g_rec = 1; g_rec_off = __CPROVER_POINTER_OFFSET(cur); g_rec_len = len; g_rec_wire = g_wire; }
	g_tok = cur; g_toklen = len; g_ntok++;
	return cur;
}
static size_t verif_strlen_tok(const char *s)
{
	__CPROVER_assert(s == g_tok && g_tok != (char *)0, "strlen of the current token");
	return g_toklen;
}
char g_nd[NMAX + 2];
static void *verif_memcpy_tail(void *dst, const void *src, size_t n)
{
	if (n == 0) return dst;
	__CPROVER_assert(__CPROVER_r_ok(src, n), "memcpy: source readable for n bytes");
	__CPROVER_assert(__CPROVER_w_ok(dst, n), "memcpy: destination writable for n bytes");
	__CPROVER_assert(__CPROVER_same_object(dst, g_out) && (size_t)((char *)dst - g_out) + n <= g_n + 1, "memcpy stays inside the n + 2 bytes the wire form may occupy (leaving room for the root label)");
	{
		unsigned char keep = 0;
		_Bool has = g_m < n;
		if (has) keep = ((const unsigned char *)src)[g_m];
		__CPROVER_havoc_object(g_nd);
		__CPROVER_array_replace((char *)dst, g_nd);
		if (has) ((unsigned char *)dst)[g_m] = keep;
	}
	return dst;
}
#define strdup verif_strdup
#define strtok verif_strtok
#define strlen verif_strlen_tok
#define memcpy verif_memcpy_tail
#define free verif_free
#include <read.c>
#undef strdup
#undef strtok
#undef strlen
#undef memcpy
#undef free

void h_putname(void)
{
	g_n = nondet_size_t();
	__CPROVER_assume(g_n <= NMAX);
	char *host = g_hostbuf;
	__CPROVER_havoc_object(g_hostbuf);
	__CPROVER_assume(host[g_n] == 0);
	g_host = host;
	size_t buflen = nondet_size_t();
	__CPROVER_assume(buflen <= 65536);
	g_out = g_outbuf;                                     /* call-site precondition: room for the wire form (n + 2 bytes); stated on offsets, the objects have the fixed size NMAX + 2 */
	char *p = g_out;
	g_save = (char *)0; g_tok = (char *)0;
	g_it = nondet_size_t();
	__CPROVER_assume(g_m < 63);
	int r = putname(&p, buflen, host);
	__CPROVER_assert(r >= -1, "putname returns -1 or a length");
	__CPROVER_assert(r != -1 || p == g_out, "on failure the cursor is unchanged");
	__CPROVER_assert(r != -1 || (g_tok && (g_toklen > 63 || buflen < g_n)), "putname fails only at a label longer than 63 or with a limit below the length of the name");
	if (r >= 0) {
		VERIF_REACH();
		size_t adv = (size_t)(p - g_out);
		__CPROVER_assert(__CPROVER_same_object(p, g_out) && adv >= 1 && adv <= g_n + 2 && (size_t)r + 1 == adv, "the cursor advances by the wire length, at most n + 2 bytes; the result is that length without the root label");
		__CPROVER_assert(g_out[adv - 1] == 0, "the wire form ends with the root label");
		__CPROVER_assert(adv == g_wire + 1, "the wire form is exactly one length byte plus the bytes of every token, plus the root label");
		__CPROVER_assert(g_ntok == 0 ? adv == 1 && g_skipped == g_n : adv + g_skipped == g_n + 2, "wire length = n + 2 minus the dots that belong to empty labels (1 when the name has no label at all)");
		__CPROVER_assert(g_empty_seen || g_skipped == 0, "without an empty label the name occupies exactly n + 2 bytes (1 for the empty name)");
		__CPROVER_assert(!g_empty_seen || (g_empty_at < g_n && host[g_empty_at] == '.' && (g_empty_at == 0 || host[g_empty_at - 1] == '.' || g_empty_at == g_n - 1)), "the recorded witness is a dot that belongs to an empty label of the name (leading, doubled or trailing dot)");
		if (g_rec) {
			/* token number g_it (arbitrary): its label sits at the wire offset of everything before it */
			__CPROVER_assert(g_rec_len >= 1 && g_rec_len <= 63 && (unsigned char)g_out[g_rec_wire] == g_rec_len, "every label is preceded by its length, which is 1..63");
			__CPROVER_assert(g_m >= g_rec_len || g_out[g_rec_wire + 1 + g_m] == host[g_rec_off + g_m], "every label carries the bytes of its token of the dotted name");
			__CPROVER_assert(g_rec_wire + 1 + g_rec_len < adv, "every label lies before the root label");
		}
	}
	VERIF_REACH();
}
