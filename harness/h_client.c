/* src/client.c under contract (C06: client survives arbitrary replies; C09: the payload decoder picks the
 * codec the server used for that letter; C01/C13/C19 call sites).
 *
 * Harness style: the real client.c is included textually; functions of other translation units that have
 * their own proof (dns_decode, unpack_data, the codecs, build_hostname, dns_encode) are stubs carrying their
 * contract and recording how they were called; library/OS functions are models. */
#include <stddef.h>
#include "lib/verif.h"
int nondet_int(void);
unsigned nondet_unsigned(void);
long nondet_long(void);
size_t nondet_size_t(void);
unsigned char nondet_uchar(void);
_Bool nondet_bool(void);

#define main client_main_unused
#define time verif_time
#define recvfrom verif_recvfrom
#define sendto verif_sendto
#define select verif_select
#define sleep verif_sleep
#define warn verif_warn
#define warnx verif_warnx
#define fprintf verif_fprintf
#define uncompress verif_uncompress
#define compress2 verif_compress2
#define memcpy verif_memcpy_c
#define strlen verif_strlen_c
#include <sys/types.h>
#include <sys/socket.h>
#include <sys/select.h>
#include <time.h>
#include <stdio.h>
#include <string.h>
#include <zlib.h>
#undef memcpy
#undef strlen
size_t g_m;                         /* ghost: arbitrary byte index for copy models */
static void *verif_memcpy_c(void *dst, const void *src, size_t n);
static size_t verif_strlen_c(const char *s);
#define memcpy verif_memcpy_c
#define strlen verif_strlen_c
#include <client.c>
#undef memcpy
#undef strlen
#undef time
#undef recvfrom
#undef sendto
#undef select
#undef sleep
#undef warn
#undef warnx
#undef fprintf
#undef uncompress
#undef compress2

/* ---- library / OS models ---------------------------------------------------------------------- */
static time_t g_now;
time_t verif_time(time_t *t) { return g_now; }
unsigned verif_sleep(unsigned s) { return 0; }
void verif_warn(const char *fmt, ...) { }
void verif_warnx(const char *fmt, ...) { }
int verif_fprintf(FILE *f, const char *fmt, ...) { return 0; }
static void *verif_memcpy_c(void *dst, const void *src, size_t n)
{
	if (n == 0) return dst;
	__CPROVER_assert(__CPROVER_r_ok(src, n), "memcpy: source readable for n bytes");
	__CPROVER_assert(__CPROVER_w_ok(dst, n), "memcpy: destination writable for n bytes");
	{
		unsigned char keep = 0;
		_Bool has = g_m < n;
		if (has) keep = ((const unsigned char *)src)[g_m];
		__CPROVER_havoc_slice(dst, n);
		if (has) ((unsigned char *)dst)[g_m] = keep;
	}
	return dst;
}
/* strlen: a NUL must exist inside the object (asserted through the harness's knowledge g_nul_at of one NUL) */
static const char *g_nul_obj; static size_t g_nul_at;
static size_t verif_strlen_c(const char *s)
{
	__CPROVER_assert(__CPROVER_r_ok(s, 1), "strlen: argument readable");
	size_t off = __CPROVER_POINTER_OFFSET(s), size = __CPROVER_OBJECT_SIZE(s);
	_Bool known = g_nul_obj && __CPROVER_same_object(s, g_nul_obj) && off <= g_nul_at && g_nul_obj[g_nul_at] == 0;
	__CPROVER_assert(known || ((const char *)s - off)[size - 1] == 0, "strlen: a NUL exists inside the object at or behind the argument (no over-read)");
	size_t n = nondet_size_t();
	__CPROVER_assume(n < size - off && s[n] == 0);
	if (known) __CPROVER_assume(n <= g_nul_at - off);
	return n;
}

/* ---- stubs for other translation units (contracts proved in their own groups) --------------------- */
/* the four codecs: identity of the codec is what matters here; decoders obey the C07 contract
 * (at most *dstlen bytes + NUL written, result 0..*dstlen) */
static int g_dec_calls, g_dec_codec; static const char *g_dec_src; static size_t g_dec_srclen, g_dec_cap; static void *g_dec_dst;
static int stub_dec(int codec, void *dst, size_t *dstlen, const char *src, size_t srclen)
{
	int r = nondet_int();
	__CPROVER_assert(__CPROVER_w_ok(dst, *dstlen + 1), "decoder output has room for *dstlen + 1 bytes");
	__CPROVER_assert(srclen == 0 || __CPROVER_r_ok(src, srclen), "decoder input readable for srclen bytes");
	g_dec_calls++; g_dec_codec = codec; g_dec_src = src; g_dec_srclen = srclen; g_dec_cap = *dstlen; g_dec_dst = dst;
	__CPROVER_assume(r >= 0 && (size_t)r <= *dstlen);
	__CPROVER_havoc_slice(dst, *dstlen + 1);
	*dstlen = (size_t)r;
	return r;
}
static int dec32(void *d, size_t *l, const char *s, size_t n) { return stub_dec(32, d, l, s, n); }
static int dec64(void *d, size_t *l, const char *s, size_t n) { return stub_dec(64, d, l, s, n); }
static int dec64u(void *d, size_t *l, const char *s, size_t n) { return stub_dec(65, d, l, s, n); }
static int dec128(void *d, size_t *l, const char *s, size_t n) { return stub_dec(128, d, l, s, n); }
static int enc_any(char *dst, size_t *dstlen, const void *src, size_t srclen) { __CPROVER_assert(0, "encoder not expected here"); return 0; }
const struct encoder base32_ops = { "Base32", enc_any, dec32, 0, 0, 5, 8 }, base64_ops = { "Base64", enc_any, dec64, 0, 0, 3, 4 },
	base64u_ops = { "Base64u", enc_any, dec64u, 0, 0, 3, 4 }, base128_ops = { "Base128", enc_any, dec128, 0, 0, 7, 8 };
/* unpack_data (group enc_unpack_data): undotify in place + the given codec's decoder on exactly [data, data+datalen) */
static int g_unp_calls, g_unp_codec; static char *g_unp_data; static size_t g_unp_len, g_unp_cap; static char *g_unp_dst;
int unpack_data(char *buf, size_t buflen, char *data, size_t datalen, const struct encoder *enc)
{
	int r = nondet_int();
	__CPROVER_assert(__CPROVER_w_ok(buf, buflen), "unpack_data: output writable for buflen bytes");
	__CPROVER_assert(datalen == 0 || __CPROVER_rw_ok(data, datalen), "unpack_data: encoded text readable and writable for datalen bytes");
	g_unp_calls++; g_unp_data = data; g_unp_len = datalen; g_unp_cap = buflen; g_unp_dst = buf;
	g_unp_codec = enc == &base32_ops ? 32 : enc == &base64_ops ? 64 : enc == &base64u_ops ? 65 : enc == &base128_ops ? 128 : -1;
	__CPROVER_assume(r >= 0 && (size_t)r <= buflen);
	if (buflen) __CPROVER_havoc_slice(buf, buflen);
	return r;
}

/* ---- dns_namedec: which codec for which letter (protocol document, "Downstream encodings") ----------- */
#ifndef NAMEDEC_CAP
#define NAMEDEC_CAP 1024
#endif
void h_namedec(void)
{
	int buflen = nondet_int(), outlen = nondet_int();
	__CPROVER_assume(buflen >= 1 && buflen <= NAMEDEC_CAP);       /* callers: rv > 0 from dns_decode, thispartlen > 0 */
	__CPROVER_assume(outlen >= 1 && outlen <= 65536);             /* callers pass the space left in data[64K] */
	static char bufobj[NAMEDEC_CAP + 1];
	char *buf = bufobj;
	char *out = malloc((size_t)outlen + 1);                       /* decoders write a NUL behind their output */
	__CPROVER_havoc_object(bufobj);
	char c = buf[0];
	g_dec_calls = g_unp_calls = 0;
	int r = dns_namedec(out, outlen, buf, buflen);
	int want = (c == 'h' || c == 'H' || c == 't' || c == 'T') ? 32 : (c == 'i' || c == 'I' || c == 's' || c == 'S') ? 64 :
		(c == 'j' || c == 'J' || c == 'u' || c == 'U') ? 65 : (c == 'k' || c == 'K' || c == 'v' || c == 'V') ? 128 : 0;
	_Bool hostname = c == 'h' || c == 'H' || c == 'i' || c == 'I' || c == 'j' || c == 'J' || c == 'k' || c == 'K';
	_Bool txt = c == 't' || c == 'T' || c == 's' || c == 'S' || c == 'u' || c == 'U' || c == 'v' || c == 'V';
	__CPROVER_assert(r >= 0 && r <= outlen, "dns_namedec returns 0..outdatalen");
	__CPROVER_assert(g_dec_calls + g_unp_calls <= 1, "at most one decoder runs");
	/* C09: the codec chosen for letter X is the codec the server uses when it emits X (h/t Base32, i/s Base64, j/u Base64u, k/v Base128) */
	__CPROVER_assert(!g_unp_calls || (hostname && g_unp_codec == want), "host-name answers: letter h/i/j/k selects Base32/Base64/Base64u/Base128");
	__CPROVER_assert(!g_dec_calls || (txt && g_dec_codec == want), "TXT answers: letter t/s/u/v selects Base32/Base64/Base64u/Base128");
	__CPROVER_assert(!g_unp_calls || (buflen >= 5 && g_unp_data == buf + 1 && g_unp_len == (size_t)buflen - 4 && g_unp_dst == out && g_unp_cap == (size_t)outlen), "host-name answers: exactly the text between the codec letter and the 3-character suffix is decoded, into the caller's buffer");
	__CPROVER_assert(!g_dec_calls || (buflen >= 2 && g_dec_src == buf + 1 && g_dec_srclen == (size_t)buflen - 1 && g_dec_dst == (void *)out && g_dec_cap == (size_t)outlen), "TXT answers: exactly the text behind the codec letter is decoded, into the caller's buffer");
	__CPROVER_assert(!(hostname && buflen >= 5) || g_unp_calls == 1, "a host-name answer of at least 5 characters is decoded");
	__CPROVER_assert(!(txt && buflen >= 2) || g_dec_calls == 1, "a TXT answer of at least 2 characters is decoded");
	if (c == 'r' || c == 'R') {
		__CPROVER_assert(r == (buflen - 1 < outlen ? buflen - 1 : outlen), "raw TXT: everything behind the letter, cut to the space");
		__CPROVER_assert(!(g_m < (size_t)r) || out[g_m] == buf[1 + g_m], "raw TXT: copied byte for byte");
	}
	__CPROVER_assert(hostname || txt || c == 'r' || c == 'R' || (r == 0 && !g_dec_calls && !g_unp_calls), "any other first character: nothing decoded");
	VERIF_REACH();
}
