/* src/client.c under contract (C06: client survives arbitrary replies; C09: the payload decoder picks the
 * codec the server used for that letter; C01/C13/C19 call sites).
 *
 * Harness style: the real client.c is included textually; functions of other translation units that have
 * their own proof (dns_decode, unpack_data, the codecs, build_hostname, dns_encode) are stubs carrying their
 * contract and recording how they were called; library/OS functions are models. */
#define VERIF_REACH() __CPROVER_assert(0, "VERIF_REACH: code after the call is reachable (must fail)")
/* No system header is included here: the translation unit under contract is the `gcc -E` text of the real
 * client.c (with the 64 KB buffers shrunk by must-fire rules, see evidence.extraction_drops), which brings
 * every declaration itself; the macros below redirect library calls and calls to helpers that have their
 * own proof, keeping the real definitions under the name verif_real_*. */
int nondet_int(void);
unsigned nondet_unsigned(void);
long nondet_long(void);
unsigned long nondet_size_t(void);
unsigned char nondet_uchar(void);
_Bool nondet_bool(void);

#define time verif_time
#define sleep verif_sleep
#define warn verif_warn
#define warnx verif_warnx
#define fprintf verif_fprintf
#define uncompress verif_uncompress
#define memcpy verif_memcpy_c
#define strlen verif_strlen_c
unsigned long g_m;                         /* ghost: arbitrary byte index for copy models */
static void *verif_memcpy_c(void *dst, const void *src, unsigned long n);
static unsigned long verif_strlen_c(const char *s);
#ifdef STUB_TUNNEL
/* read_dns_withq(int dns_fd, ...) is the definition; the calls pass dns_fd */
#define RDSEL_int verif_real_read_dns_withq(int
#define RDSEL_dns_fd verif_stub_read_dns_withq(dns_fd
#define read_dns_withq(a, b, c, d, e) RDSEL_##a, b, c, d, e)
#define SPSEL_int verif_real_send_ping(int
#define SPSEL_dns_fd verif_stub_send_ping(dns_fd
#define send_ping(a) SPSEL_##a)
#define SCSEL_int verif_real_send_chunk(int
#define SCSEL_dns_fd verif_stub_send_chunk(dns_fd
#define send_chunk(a) SCSEL_##a)
struct query;
static int verif_stub_read_dns_withq(int dns_fd, int tun_fd, char *buf, int buflen, struct query *q);
static void verif_stub_send_ping(int fd);
static void verif_stub_send_chunk(int fd);
#endif
#include VERIF_SHRUNK_TU
#include VERIF_SHRUNK_MACROS
#undef memcpy
#undef strlen
#undef time
#undef sleep
#undef warn
#undef warnx
#undef fprintf
#undef uncompress
#ifdef STUB_TUNNEL
#undef read_dns_withq
#undef send_ping
#undef send_chunk
#endif

/* ---- library / OS models ---------------------------------------------------------------------- */
static time_t g_now;
time_t verif_time(time_t *t) { return g_now; }
unsigned verif_sleep(unsigned s) { return 0; }
void verif_warn(const char *fmt, ...) { }
void verif_warnx(const char *fmt, ...) { }
int verif_fprintf(FILE *f, const char *fmt, ...) { return 0; }
static void *verif_memcpy_c(void *dst, const void *src, size_t n)
{
	if (n == 0) return dst;
	__CPROVER_assert(__CPROVER_r_ok(src, n), "memcpy: source readable for n bytes");
	__CPROVER_assert(__CPROVER_w_ok(dst, n), "memcpy: destination writable for n bytes");
	{
		unsigned char keep = 0;
		_Bool has = g_m < n;
		if (has) keep = ((const unsigned char *)src)[g_m];
		__CPROVER_havoc_slice(dst, n);
		if (has) ((unsigned char *)dst)[g_m] = keep;
	}
	return dst;
}
/* strlen: a NUL must exist inside the object (asserted through the harness's knowledge g_nul_at of one NUL) */
static const char *g_nul_obj; static size_t g_nul_at;
static size_t verif_strlen_c(const char *s)
{
	__CPROVER_assert(__CPROVER_r_ok(s, 1), "strlen: argument readable");
	size_t off = __CPROVER_POINTER_OFFSET(s), size = __CPROVER_OBJECT_SIZE(s);
	_Bool known = g_nul_obj && __CPROVER_same_object(s, g_nul_obj) && off <= g_nul_at && g_nul_obj[g_nul_at] == 0;
	__CPROVER_assert(known || ((const char *)s - off)[size - 1] == 0, "strlen: a NUL exists inside the object at or behind the argument (no over-read)");
	size_t n = nondet_size_t();
	__CPROVER_assume(n < size - off && s[n] == 0);
	if (known) __CPROVER_assume(n <= g_nul_at - off);
	return n;
}

/* ---- stubs for other translation units (contracts proved in their own groups) --------------------- */
/* the four codecs: identity of the codec is what matters here; decoders obey the C07 contract
 * (at most *dstlen bytes + NUL written, result 0..*dstlen) */
static int g_dec_calls, g_dec_codec; static const char *g_dec_src; static size_t g_dec_srclen, g_dec_cap; static void *g_dec_dst;
static int stub_dec(int codec, void *dst, size_t *dstlen, const char *src, size_t srclen)
{
	int r = nondet_int();
	__CPROVER_assert(__CPROVER_w_ok(dst, *dstlen + 1), "decoder output has room for *dstlen + 1 bytes");
	__CPROVER_assert(srclen == 0 || __CPROVER_r_ok(src, srclen), "decoder input readable for srclen bytes");
	g_dec_calls++; g_dec_codec = codec; g_dec_src = src; g_dec_srclen = srclen; g_dec_cap = *dstlen; g_dec_dst = dst;
	__CPROVER_assume(r >= 0 && (size_t)r <= *dstlen);
	__CPROVER_havoc_slice(dst, *dstlen + 1);
	*dstlen = (size_t)r;
	return r;
}
static int dec32(void *d, size_t *l, const char *s, size_t n) { return stub_dec(32, d, l, s, n); }
static int dec64(void *d, size_t *l, const char *s, size_t n) { return stub_dec(64, d, l, s, n); }
static int dec64u(void *d, size_t *l, const char *s, size_t n) { return stub_dec(65, d, l, s, n); }
static int dec128(void *d, size_t *l, const char *s, size_t n) { return stub_dec(128, d, l, s, n); }
static int enc_any(char *dst, size_t *dstlen, const void *src, size_t srclen) { __CPROVER_assert(0, "encoder not expected here"); return 0; }
const struct encoder base32_ops = { "Base32", enc_any, dec32, 0, 0, 5, 8 }, base64_ops = { "Base64", enc_any, dec64, 0, 0, 3, 4 },
	base64u_ops = { "Base64u", enc_any, dec64u, 0, 0, 3, 4 }, base128_ops = { "Base128", enc_any, dec128, 0, 0, 7, 8 };
/* unpack_data (group enc_unpack_data): undotify in place + the given codec's decoder on exactly [data, data+datalen) */
static int g_unp_calls, g_unp_codec; static char *g_unp_data; static size_t g_unp_len, g_unp_cap; static char *g_unp_dst;
int unpack_data(char *buf, size_t buflen, char *data, size_t datalen, const struct encoder *enc)
{
	int r = nondet_int();
	__CPROVER_assert(__CPROVER_w_ok(buf, buflen), "unpack_data: output writable for buflen bytes");
	__CPROVER_assert(datalen == 0 || __CPROVER_rw_ok(data, datalen), "unpack_data: encoded text readable and writable for datalen bytes");
	g_unp_calls++; g_unp_data = data; g_unp_len = datalen; g_unp_cap = buflen; g_unp_dst = buf;
	g_unp_codec = enc == &base32_ops ? 32 : enc == &base64_ops ? 64 : enc == &base64u_ops ? 65 : enc == &base128_ops ? 128 : -1;
	__CPROVER_assume(r >= 0 && (size_t)r <= buflen);
	if (buflen) __CPROVER_havoc_slice(buf, buflen);
	return r;
}

/* ---- dns_namedec: which codec for which letter (protocol document, "Downstream encodings") ----------- */
#ifndef NAMEDEC_CAP
#define NAMEDEC_CAP 1024
#endif
void h_namedec(void)
{
	int buflen = nondet_int(), outlen = nondet_int();
	__CPROVER_assume(buflen >= 1 && buflen <= NAMEDEC_CAP);       /* callers: rv > 0 from dns_decode, thispartlen > 0 */
	__CPROVER_assume(outlen >= 1 && outlen <= 65536);             /* callers pass the space left in data[64K] */
	static char bufobj[NAMEDEC_CAP + 1];
	char *buf = bufobj;
	char *out = malloc((size_t)outlen + 1);                       /* decoders write a NUL behind their output */
	__CPROVER_havoc_object(bufobj);
	char c = buf[0];
	g_dec_calls = g_unp_calls = 0;
	int r = dns_namedec(out, outlen, buf, buflen);
	int want = (c == 'h' || c == 'H' || c == 't' || c == 'T') ? 32 : (c == 'i' || c == 'I' || c == 's' || c == 'S') ? 64 :
		(c == 'j' || c == 'J' || c == 'u' || c == 'U') ? 65 : (c == 'k' || c == 'K' || c == 'v' || c == 'V') ? 128 : 0;
	_Bool hostname = c == 'h' || c == 'H' || c == 'i' || c == 'I' || c == 'j' || c == 'J' || c == 'k' || c == 'K';
	_Bool txt = c == 't' || c == 'T' || c == 's' || c == 'S' || c == 'u' || c == 'U' || c == 'v' || c == 'V';
	__CPROVER_assert(r >= 0 && r <= outlen, "dns_namedec returns 0..outdatalen");
	__CPROVER_assert(g_dec_calls + g_unp_calls <= 1, "at most one decoder runs");
	/* C09: the codec chosen for letter X is the codec the server uses when it emits X (h/t Base32, i/s Base64, j/u Base64u, k/v Base128) */
	__CPROVER_assert(!g_unp_calls || (hostname && g_unp_codec == want), "host-name answers: letter h/i/j/k selects Base32/Base64/Base64u/Base128");
	__CPROVER_assert(!g_dec_calls || (txt && g_dec_codec == want), "TXT answers: letter t/s/u/v selects Base32/Base64/Base64u/Base128");
	__CPROVER_assert(!g_unp_calls || (buflen >= 5 && g_unp_data == buf + 1 && g_unp_len == (size_t)buflen - 4 && g_unp_dst == out && g_unp_cap == (size_t)outlen), "host-name answers: exactly the text between the codec letter and the 3-character suffix is decoded, into the caller's buffer");
	__CPROVER_assert(!g_dec_calls || (buflen >= 2 && g_dec_src == buf + 1 && g_dec_srclen == (size_t)buflen - 1 && g_dec_dst == (void *)out && g_dec_cap == (size_t)outlen), "TXT answers: exactly the text behind the codec letter is decoded, into the caller's buffer");
	__CPROVER_assert(!(hostname && buflen >= 5) || g_unp_calls == 1, "a host-name answer of at least 5 characters is decoded");
	__CPROVER_assert(!(txt && buflen >= 2) || g_dec_calls == 1, "a TXT answer of at least 2 characters is decoded");
	if (c == 'r' || c == 'R') {
		__CPROVER_assert(r == (buflen - 1 < outlen ? buflen - 1 : outlen), "raw TXT: everything behind the letter, cut to the space");
		__CPROVER_assert(!(g_m < (size_t)r) || out[g_m] == buf[1 + g_m], "raw TXT: copied byte for byte");
	}
	__CPROVER_assert(hostname || txt || c == 'r' || c == 'R' || (r == 0 && !g_dec_calls && !g_unp_calls), "any other first character: nothing decoded");
	VERIF_REACH();
}

/* ---- client tunnel_dns: downstream reassembly, upstream acks, reply matching (C06, C01) ------------------ */
#ifdef STUB_TUNNEL
static int g_tun_writes, g_pings, g_chunks, g_unz_calls;
static const void *g_tun_data; static size_t g_tun_len;
static const void *g_unz_src, *g_unz_dst; static size_t g_unz_srclen, g_unz_out; static int g_unz_rc;
int write_tun(int fd, char *data, size_t len) { g_tun_writes++; g_tun_data = data; g_tun_len = len; return (int)len; }
int recent_seqno(int ourseqno, int gotseqno) { return nondet_bool(); }      /* the window function itself: group common_recent_seqno */
void write_dns_error_unused(void);
int verif_uncompress(unsigned char *dest, unsigned long *destLen, const unsigned char *source, unsigned long sourceLen)
{
	/* zlib (external, assumption A7): writes at most *destLen bytes, sets *destLen, Z_OK or an error */
	__CPROVER_assert(__CPROVER_w_ok(dest, *destLen), "uncompress: output writable for *destLen bytes");
	__CPROVER_assert(sourceLen == 0 || __CPROVER_r_ok(source, sourceLen), "uncompress: input readable for sourceLen bytes");
	g_unz_calls++; g_unz_src = source; g_unz_srclen = sourceLen; g_unz_dst = dest;
	unsigned long n = nondet_size_t();
	__CPROVER_assume(n <= *destLen);
	if (*destLen) __CPROVER_havoc_slice(dest, *destLen);
	g_unz_rc = nondet_bool() ? 0 : -3;
	if (g_unz_rc == 0) { *destLen = n; g_unz_out = n; }
	return g_unz_rc;
}
static void verif_stub_send_ping(int fd) { g_pings++; }
static void verif_stub_send_chunk(int fd)
{
	/* contract of send_chunk: sends the next fragment and records how many bytes of the packet it carries */
	g_chunks++;
	outpkt.sentlen = nondet_int();
	__CPROVER_assume(outpkt.sentlen >= 0 && outpkt.sentlen <= outpkt.len - outpkt.offset);
}
/* contract of read_dns_withq in DNS mode (proved on the real function in group cli_read_dns): result -1..buflen,
 * buf arbitrary, the query object filled with arbitrary id / type / rcode and a NUL-terminated name; no tun write */
static _Bool g_rd_badip; static int g_rd_rv; static unsigned char g_rd_b0, g_rd_b1, g_rd_ghost; static unsigned short g_rd_id; static char g_rd_c0;
static int verif_stub_read_dns_withq(int dns_fd, int tun_fd, char *buf, int buflen, struct query *q)
{
	__CPROVER_assert(buflen >= 2 && __CPROVER_w_ok(buf, buflen), "read_dns_withq: reply buffer writable for buflen bytes");
	__CPROVER_havoc_slice(buf, buflen);
	__CPROVER_havoc_object(q);
	q->name[sizeof(q->name) - 1] = 0;
	int rv = nondet_int();
	__CPROVER_assume(rv >= -1 && rv <= buflen);
	g_rd_rv = rv; g_rd_b0 = (unsigned char)buf[0]; g_rd_b1 = (unsigned char)buf[1]; g_rd_id = q->id; g_rd_c0 = q->name[0];
	g_rd_ghost = (2 + g_m < (size_t)buflen) ? (unsigned char)buf[2 + g_m] : 0;
	g_rd_badip = rv == 5 && buf[0] == 'B' && buf[1] == 'A' && buf[2] == 'D' && buf[3] == 'I' && buf[4] == 'P';
	return rv;
}
/* representation invariant of the client's packet state */
#define CLIENT_WF() (inpkt.len >= 0 && inpkt.len <= (int)sizeof(inpkt.data) && outpkt.len >= 0 && outpkt.len <= (int)sizeof(outpkt.data) && \
	outpkt.offset >= 0 && outpkt.offset <= outpkt.len && outpkt.sentlen >= 0 && outpkt.sentlen <= outpkt.len - outpkt.offset)
void h_tunnel_dns(void)
{
	__CPROVER_havoc_object(&inpkt); __CPROVER_havoc_object(&outpkt);
	__CPROVER_assume(CLIENT_WF());
	conn = CONN_DNS_NULL;
	chunkid = (unsigned short)nondet_int(); chunkid_prev = (unsigned short)nondet_int(); chunkid_prev2 = (unsigned short)nondet_int();
	userid_char = (char)nondet_int(); userid_char2 = (char)nondet_int();
	lazymode = nondet_int(); selecttimeout = nondet_int(); send_ping_soon = nondet_long();
	__CPROVER_assume(send_ping_soon >= 0 && send_ping_soon <= 1000);
	g_tun_writes = g_pings = g_chunks = g_unz_calls = 0;
	int in_len0 = inpkt.len, out_len0 = outpkt.len, out_off0 = outpkt.offset, out_sent0 = outpkt.sentlen;
	char in_seq0 = inpkt.seqno, in_frag0 = inpkt.fragment, out_seq0 = outpkt.seqno, out_frag0 = outpkt.fragment;
	int r = tunnel_dns(7, 8);
	int seq = (g_rd_b1 >> 5) & 7, frag = (g_rd_b1 >> 1) & 15, last = g_rd_b1 & 1, ack_seq = (g_rd_b0 >> 4) & 7, ack_frag = g_rd_b0 & 15;
	_Bool ours = g_rd_c0 == 'P' || g_rd_c0 == 'p' || g_rd_c0 == userid_char || g_rd_c0 == userid_char2;
	_Bool recent = g_rd_id == chunkid || g_rd_id == chunkid_prev || g_rd_id == chunkid_prev2;
	_Bool in_same = inpkt.len == in_len0 && inpkt.seqno == in_seq0 && inpkt.fragment == in_frag0;
	_Bool out_same = outpkt.len == out_len0 && outpkt.offset == out_off0 && outpkt.sentlen == out_sent0 && outpkt.seqno == out_seq0 && outpkt.fragment == out_frag0;
	/* C06: replies that do not match our recent queries are ignored */
	__CPROVER_assert((ours && recent && g_rd_rv >= 2 && !g_rd_badip) || (g_tun_writes == 0 && g_unz_calls == 0 && in_same && out_same && g_chunks == 0), "a reply that is not to one of our three most recent queries, does not start with our letter, or carries no data header changes nothing and delivers nothing");
	__CPROVER_assert(CLIENT_WF(), "the packet state invariant is preserved");
	/* C01: what reaches the tun device */
	__CPROVER_assert(g_tun_writes <= 1 && g_unz_calls <= 1, "at most one packet is delivered per reply");
	__CPROVER_assert(g_tun_writes == 0 || (g_unz_calls == 1 && g_unz_rc == 0 && g_tun_data == g_unz_dst && g_tun_len == g_unz_out && last), "only a successfully inflated packet is written to tun, with exactly the bytes and length zlib produced, and only on the last-fragment flag");
	__CPROVER_assert(g_unz_calls == 0 || (g_unz_src == (const void *)inpkt.data && g_unz_srclen <= sizeof(inpkt.data)), "zlib is given the reassembly buffer and its fill level");
	{
		/* fragments appended in this call */
		long base = inpkt.seqno != in_seq0 ? 0 : in_len0;           /* a reply with a new sequence number restarts the buffer */
		long appended = (g_unz_calls ? (long)g_unz_srclen : (long)inpkt.len) - base;
		_Bool dup = seq == in_seq0 && frag <= in_frag0 && !(in_frag0 == 0 && frag == 0 && in_len0 == 0);
		_Bool gap = seq == in_seq0 && frag > in_frag0 + 1;
		__CPROVER_assert(!(dup || gap) || (in_same && g_unz_calls == 0 && g_tun_writes == 0), "a duplicate of a fragment already received, or a fragment after a gap, is not appended");
		if (g_unz_calls || inpkt.len > base) {
			__CPROVER_assert(appended >= 0 && appended <= g_rd_rv - 2, "only bytes of this reply behind its 2-byte header are appended");
			__CPROVER_assert(!(g_m < (size_t)appended) || (unsigned char)inpkt.data[base + g_m] == g_rd_ghost, "appended bytes are the reply's bytes in order, placed at the fill level");
			__CPROVER_assert(inpkt.fragment == (char)frag && inpkt.seqno == (char)seq, "the fragment and sequence numbers of the reply are recorded");
		}
	}
	/* upstream: only a matching ack advances, by exactly the bytes sent */
	{
		_Bool ack = ours && recent && g_rd_rv >= 2 && !g_rd_badip && out_len0 != 0 && ack_seq == out_seq0 && ack_frag == out_frag0;
		__CPROVER_assert(ack || out_same, "only an ack for the fragment last sent moves the upstream packet");
		__CPROVER_assert(!ack || (out_off0 + out_sent0 >= out_len0 ? (outpkt.len == 0 && outpkt.offset == 0 && outpkt.sentlen == 0) : (outpkt.offset == out_off0 + out_sent0 && outpkt.fragment == (char)(out_frag0 + 1) && outpkt.len == out_len0 && g_chunks == 1)), "a matching ack advances by exactly the bytes sent (next fragment sent) or completes the packet");
	}
	VERIF_REACH();
}
#endif
