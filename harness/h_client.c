/* src/client.c under contract (C06: client survives arbitrary replies; C09: the payload decoder picks the
 * codec the server used for that letter; C01/C13/C19 call sites).
 *
 * Harness style: the real client.c is included textually; functions of other translation units that have
 * their own proof (dns_decode, unpack_data, the codecs, build_hostname, dns_encode) are stubs carrying their
 * contract and recording how they were called; library/OS functions are models. */
#define VERIF_REACH() __CPROVER_assert(0, "VERIF_REACH: code after the call is reachable (must fail)")
/* No system header is included here: the translation unit under contract is the `gcc -E` text of the real
 * client.c (with the 64 KB buffers shrunk by must-fire rules, see evidence.extraction_drops), which brings
 * every declaration itself; the macros below redirect library calls and calls to helpers that have their
 * own proof, keeping the real definitions under the name verif_real_*. */
int nondet_int(void);
unsigned nondet_unsigned(void);
long nondet_long(void);
unsigned long nondet_size_t(void);
unsigned char nondet_uchar(void);
_Bool nondet_bool(void);

#define time verif_time
#define sleep verif_sleep
#define warn verif_warn
#define warnx verif_warnx
#define fprintf verif_fprintf
#define uncompress verif_uncompress
#define compress2 verif_compress2
#define sendto verif_sendto_c
#define memcpy verif_memcpy_c
#define strlen verif_strlen_c
unsigned long g_m;                         /* ghost: arbitrary byte index for copy models */
static void *verif_memcpy_c(void *dst, const void *src, unsigned long n);
static unsigned long verif_strlen_c(const char *s);
#ifdef STUB_TUNNEL
/* read_dns_withq(int dns_fd, ...) is the definition; the calls pass dns_fd */
#define RDSEL_int verif_real_read_dns_withq(int
#define RDSEL_dns_fd verif_stub_read_dns_withq(dns_fd
#define read_dns_withq(a, b, c, d, e) RDSEL_##a, b, c, d, e)
#define SPSEL_int verif_real_send_ping(int
#define SPSEL_dns_fd verif_stub_send_ping(dns_fd
#define send_ping(a) SPSEL_##a)
#define SCSEL_int verif_real_send_chunk(int
#define SCSEL_dns_fd verif_stub_send_chunk(dns_fd
#define send_chunk(a) SCSEL_##a)
struct query;
static int verif_stub_read_dns_withq(int dns_fd, int tun_fd, char *buf, int buflen, struct query *q);
static void verif_stub_send_ping(int fd);
static void verif_stub_send_chunk(int fd);
#endif
#ifdef STUB_SENDERS
/* the client's name builders: send_query (message encoding + socket) is a recorder */
#define SQSEL_int verif_real_send_query(int
#define SQSEL_fd verif_stub_send_query(fd
#define send_query(a, b) SQSEL_##a, b)
static void verif_stub_send_query(int fd, char *hostname);
#endif
#ifdef STUB_READDNS
/* read_dns_withq: the payload decoder has its own proof (group cli_namedec); calls pass `data` or `data + dataoffset` */
#define NDSEL_char verif_real_dns_namedec(char
#define NDSEL_data verif_stub_dns_namedec(data
#define dns_namedec(a, b, c, d) NDSEL_##a, b, c, d)
#define recvfrom verif_recvfrom_c
static int verif_stub_dns_namedec(char *outdata, int outdatalen, char *buf, int buflen);
#endif
#ifdef STUB_HANDSHAKE
/* handshake parsers: the reply reader and the query senders are replaced by their contracts */
#define HWSEL_int verif_real_handshake_waitdns(int
#define HWSEL_dns_fd verif_stub_handshake_waitdns(dns_fd
#define handshake_waitdns(a, b, c, d, e, f) HWSEL_##a, b, c, d, e, f)
#define SLSEL_int verif_real_send_login(int
#define SLSEL_dns_fd verif_stub_send_login(dns_fd
#define SLSEL_fd verif_stub_send_login(fd
#define send_login(a, b, c) SLSEL_##a, b, c)
#define SVSEL_int verif_real_send_version(int
#define SVSEL_dns_fd verif_stub_send_version(dns_fd
#define SVSEL_fd verif_stub_send_version(fd
#define send_version(a, b) SVSEL_##a, b)
#define HQSEL_int verif_real_send_handshake_query(int
#define HQSEL_dns_fd verif_stub_send_handshake_query(dns_fd
#define HQSEL_fd verif_stub_send_handshake_query(fd
#define send_handshake_query(a, b) HQSEL_##a, b)
#define UTSEL_int verif_real_send_upenctest(int
#define UTSEL_dns_fd verif_stub_send_upenctest(dns_fd
#define UTSEL_fd verif_stub_send_upenctest(fd
#define send_upenctest(a, b) UTSEL_##a, b)
#define DTSEL_int verif_real_send_downenctest(int
#define DTSEL_dns_fd verif_stub_send_downenctest(dns_fd
#define DTSEL_fd verif_stub_send_downenctest(fd
#define send_downenctest(a, b, c) DTSEL_##a, b, c)
#define LSSEL_int verif_real_send_lazy_switch(int
#define LSSEL_dns_fd verif_stub_send_lazy_switch(dns_fd
#define LSSEL_fd verif_stub_send_lazy_switch(fd
#define send_lazy_switch(a) LSSEL_##a)
#define SFSEL_int verif_real_send_set_downstream_fragsize(int
#define SFSEL_dns_fd verif_stub_send_set_downstream_fragsize(dns_fd
#define SFSEL_fd verif_stub_send_set_downstream_fragsize(fd
#define send_set_downstream_fragsize(a, b) SFSEL_##a, b)
#define FPSEL_int verif_real_send_fragsize_probe(int
#define FPSEL_dns_fd verif_stub_send_fragsize_probe(dns_fd
#define FPSEL_fd verif_stub_send_fragsize_probe(fd
#define send_fragsize_probe(a, b) FPSEL_##a, b)
/* the one sscanf call of client.c has six arguments; the two declarations in <stdio.h> have three */
#define SSC_PICK(_1, _2, _3, _4, _5, _6, NAME, ...) NAME
#define sscanf(...) SSC_PICK(__VA_ARGS__, SSC_CALL, SSC_X5, SSC_X4, SSC_DECL, SSC_X2, SSC_X1)(__VA_ARGS__)
#define SSC_CALL(str, fmt, a, b, c, d) verif_sscanf4(str, a, b, c, d)
#define SSC_DECL(a, b, c) verif_sscanf_decl(a, b, c)
#define errx verif_errx
#define select verif_select
#define recv verif_recv
#define fflush verif_fflush
static void verif_stub_send_login(int fd, char *login, int len);
static void verif_stub_send_version(int fd, unsigned version);
static void verif_stub_send_handshake_query(int fd, char *prefix);
static void verif_stub_send_upenctest(int fd, const char *s);
static void verif_stub_send_downenctest(int fd, char downenc, int variant);
static void verif_stub_send_lazy_switch(int fd);
static void verif_stub_send_set_downstream_fragsize(int fd, int fragsize);
static void verif_stub_send_fragsize_probe(int fd, int fragsize);
static int verif_stub_handshake_waitdns(int dns_fd, char *buf, int buflen, char c1, char c2, int timeout);
static int verif_sscanf4(const char *str, char *a, char *b, int *c, int *d);
#endif
#include VERIF_SHRUNK_TU
#include VERIF_SHRUNK_MACROS
#ifdef STUB_SENDERS
#undef send_query
#endif
#ifdef STUB_READDNS
#undef dns_namedec
#undef recvfrom
#define dns_namedec verif_real_dns_namedec
#endif
#ifdef STUB_HANDSHAKE
#undef handshake_waitdns
#undef send_login
#undef send_version
#undef send_handshake_query
#undef send_upenctest
#undef send_downenctest
#undef send_lazy_switch
#undef send_set_downstream_fragsize
#undef send_fragsize_probe
#undef sscanf
#undef errx
#undef select
#undef recv
#undef fflush
#endif
#undef memcpy
#undef strlen
#undef time
#undef sleep
#undef warn
#undef warnx
#undef fprintf
#undef uncompress
#undef compress2
#undef sendto
#ifdef STUB_TUNNEL
#undef read_dns_withq
#undef send_ping
#undef send_chunk
#endif

/* ---- library / OS models ---------------------------------------------------------------------- */
static time_t g_now;
time_t verif_time(time_t *t) { return g_now; }
unsigned verif_sleep(unsigned s) { return 0; }
void verif_warn(const char *fmt, ...) { }
void verif_warnx(const char *fmt, ...) { }
int verif_fprintf(FILE *f, const char *fmt, ...) { return 0; }
static void *verif_memcpy_c(void *dst, const void *src, size_t n)
{
	if (n == 0) return dst;
	__CPROVER_assert(__CPROVER_r_ok(src, n), "memcpy: source readable for n bytes");
	__CPROVER_assert(__CPROVER_w_ok(dst, n), "memcpy: destination writable for n bytes");
	{
		unsigned char keep = 0;
		_Bool has = g_m < n;
		if (has) keep = ((const unsigned char *)src)[g_m];
		__CPROVER_havoc_slice(dst, n);
		if (has) ((unsigned char *)dst)[g_m] = keep;
	}
	return dst;
}
/* strlen: a NUL must exist inside the object (asserted through the harness's knowledge g_nul_at of one NUL) */
static const char *g_nul_obj; static size_t g_nul_at;
static size_t verif_strlen_c(const char *s)
{
	__CPROVER_assert(__CPROVER_r_ok(s, 1), "strlen: argument readable");
	size_t off = __CPROVER_POINTER_OFFSET(s), size = __CPROVER_OBJECT_SIZE(s);
	_Bool known = g_nul_obj && __CPROVER_same_object(s, g_nul_obj) && off <= g_nul_at && g_nul_obj[g_nul_at] == 0;
	__CPROVER_assert(known || ((const char *)s - off)[size - 1] == 0, "strlen: a NUL exists inside the object at or behind the argument (no over-read)");
	size_t n = nondet_size_t();
	__CPROVER_assume(n < size - off && s[n] == 0);
	if (known) __CPROVER_assume(n <= g_nul_at - off);
	return n;
}

static int g_sendto_calls; static size_t g_sendto_len; static unsigned char g_sendto_b3;
ssize_t verif_sendto_c(int fd, const void *buf, size_t len, int flags, const struct sockaddr *to, socklen_t tolen)
{
	__CPROVER_assert(len == 0 || __CPROVER_r_ok(buf, len), "sendto: buffer readable for len bytes");
	g_sendto_calls++; g_sendto_len = len; g_sendto_b3 = len > 3 ? ((const unsigned char *)buf)[3] : 0;
	return (ssize_t)len;
}
/* ---- stubs for other translation units (contracts proved in their own groups) --------------------- */
/* the four codecs: identity of the codec is what matters here; decoders obey the C07 contract
 * (at most *dstlen bytes + NUL written, result 0..*dstlen) */
static int g_dec_calls, g_dec_codec; static const char *g_dec_src; static size_t g_dec_srclen, g_dec_cap; static void *g_dec_dst;
static int stub_dec(int codec, void *dst, size_t *dstlen, const char *src, size_t srclen)
{
	int r = nondet_int();
	/* C07 decoder contract: result = min(capacity, bytes the text decodes to) <= number of characters; bytes 0..result written
	 * in order, then one NUL: at most min(capacity, srclen) + 1 bytes are touched */
	size_t room = (*dstlen < srclen ? *dstlen : srclen) + 1;
	__CPROVER_assert(__CPROVER_w_ok(dst, room), "decoder output has room for min(*dstlen, srclen) + 1 bytes");
	__CPROVER_assert(srclen == 0 || __CPROVER_r_ok(src, srclen), "decoder input readable for srclen bytes");
	g_dec_calls++; g_dec_codec = codec; g_dec_src = src; g_dec_srclen = srclen; g_dec_cap = *dstlen; g_dec_dst = dst;
	__CPROVER_assume(r >= 0 && (size_t)r + 1 <= room);
	__CPROVER_havoc_slice(dst, room);
	*dstlen = (size_t)r;
	return r;
}
static int dec32(void *d, size_t *l, const char *s, size_t n) { return stub_dec(32, d, l, s, n); }
static int dec64(void *d, size_t *l, const char *s, size_t n) { return stub_dec(64, d, l, s, n); }
static int dec64u(void *d, size_t *l, const char *s, size_t n) { return stub_dec(65, d, l, s, n); }
static int dec128(void *d, size_t *l, const char *s, size_t n) { return stub_dec(128, d, l, s, n); }
static int enc_any(char *dst, size_t *dstlen, const void *src, size_t srclen) { __CPROVER_assert(0, "encoder not expected here"); return 0; }
const struct encoder base32_ops = { "Base32", enc_any, dec32, 0, 0, 5, 8 }, base64_ops = { "Base64", enc_any, dec64, 0, 0, 3, 4 },
	base64u_ops = { "Base64u", enc_any, dec64u, 0, 0, 3, 4 }, base128_ops = { "Base128", enc_any, dec128, 0, 0, 7, 8 };
/* unpack_data (group enc_unpack_data): undotify in place + the given codec's decoder on exactly [data, data+datalen) */
static int g_unp_calls, g_unp_codec; static char *g_unp_data; static size_t g_unp_len, g_unp_cap; static char *g_unp_dst;
int unpack_data(char *buf, size_t buflen, char *data, size_t datalen, const struct encoder *enc)
{
	int r = nondet_int();
	/* group enc_unpack_data: undotify in place, then the codec's decoder with capacity buflen on at most datalen characters */
	size_t room = (buflen < datalen ? buflen : datalen) + 1;
	__CPROVER_assert(__CPROVER_w_ok(buf, room), "unpack_data: output has room for min(buflen, datalen) + 1 bytes");
	__CPROVER_assert(datalen == 0 || __CPROVER_rw_ok(data, datalen), "unpack_data: encoded text readable and writable for datalen bytes");
	g_unp_calls++; g_unp_data = data; g_unp_len = datalen; g_unp_cap = buflen; g_unp_dst = buf;
	g_unp_codec = enc == &base32_ops ? 32 : enc == &base64_ops ? 64 : enc == &base64u_ops ? 65 : enc == &base128_ops ? 128 : -1;
	__CPROVER_assume(r >= 0 && (size_t)r + 1 <= room);
	__CPROVER_havoc_slice(buf, room);
	return r;
}

/* ---- dns_namedec: which codec for which letter (protocol document, "Downstream encodings") ----------- */
#ifndef NAMEDEC_CAP
#define NAMEDEC_CAP 1024
#endif
void h_namedec(void)
{
	int buflen = nondet_int(), outlen = nondet_int();
	__CPROVER_assume(buflen >= 1 && buflen <= NAMEDEC_CAP);       /* callers: rv > 0 from dns_decode, thispartlen > 0 */
	__CPROVER_assume(outlen >= 1 && outlen <= 65536);             /* callers pass the space left in data[64K] */
	static char bufobj[NAMEDEC_CAP + 1];
	char *buf = bufobj;
	char *out = malloc((size_t)(outlen < buflen ? outlen : buflen) + 1);   /* EXACTLY what dns_namedec may touch: min(space, text length) bytes + the decoders' NUL */
	__CPROVER_havoc_object(bufobj);
	char c = buf[0];
	g_dec_calls = g_unp_calls = 0;
	int r = dns_namedec(out, outlen, buf, buflen);
	int want = (c == 'h' || c == 'H' || c == 't' || c == 'T') ? 32 : (c == 'i' || c == 'I' || c == 's' || c == 'S') ? 64 :
		(c == 'j' || c == 'J' || c == 'u' || c == 'U') ? 65 : (c == 'k' || c == 'K' || c == 'v' || c == 'V') ? 128 : 0;
	_Bool hostname = c == 'h' || c == 'H' || c == 'i' || c == 'I' || c == 'j' || c == 'J' || c == 'k' || c == 'K';
	_Bool txt = c == 't' || c == 'T' || c == 's' || c == 'S' || c == 'u' || c == 'U' || c == 'v' || c == 'V';
	__CPROVER_assert(r >= 0 && r <= outlen, "dns_namedec returns 0..outdatalen");
	__CPROVER_assert(g_dec_calls + g_unp_calls <= 1, "at most one decoder runs");
	/* C09: the codec chosen for letter X is the codec the server uses when it emits X (h/t Base32, i/s Base64, j/u Base64u, k/v Base128) */
	__CPROVER_assert(!g_unp_calls || (hostname && g_unp_codec == want), "host-name answers: letter h/i/j/k selects Base32/Base64/Base64u/Base128");
	__CPROVER_assert(!g_dec_calls || (txt && g_dec_codec == want), "TXT answers: letter t/s/u/v selects Base32/Base64/Base64u/Base128");
	__CPROVER_assert(!g_unp_calls || (buflen >= 5 && g_unp_data == buf + 1 && g_unp_len == (size_t)buflen - 4 && g_unp_dst == out && g_unp_cap == (size_t)outlen), "host-name answers: exactly the text between the codec letter and the 3-character suffix is decoded, into the caller's buffer");
	__CPROVER_assert(!g_dec_calls || (buflen >= 2 && g_dec_src == buf + 1 && g_dec_srclen == (size_t)buflen - 1 && g_dec_dst == (void *)out && g_dec_cap == (size_t)outlen), "TXT answers: exactly the text behind the codec letter is decoded, into the caller's buffer");
	__CPROVER_assert(!(hostname && buflen >= 5) || g_unp_calls == 1, "a host-name answer of at least 5 characters is decoded");
	__CPROVER_assert(!(txt && buflen >= 2) || g_dec_calls == 1, "a TXT answer of at least 2 characters is decoded");
	if (c == 'r' || c == 'R') {
		__CPROVER_assert(r == (buflen - 1 < outlen ? buflen - 1 : outlen), "raw TXT: everything behind the letter, cut to the space");
		__CPROVER_assert(!(g_m < (size_t)r) || out[g_m] == buf[1 + g_m], "raw TXT: copied byte for byte");
	}
	__CPROVER_assert(hostname || txt || c == 'r' || c == 'R' || (r == 0 && !g_dec_calls && !g_unp_calls), "any other first character: nothing decoded");
	VERIF_REACH();
}

/* ---- client tunnel_dns: downstream reassembly, upstream acks, reply matching (C06, C01) ------------------ */
#ifdef STUB_TUNNEL
static int g_tun_writes, g_pings, g_chunks, g_unz_calls;
static const void *g_tun_data; static size_t g_tun_len;
static const void *g_unz_src, *g_unz_dst; static size_t g_unz_srclen, g_unz_out; static int g_unz_rc;
int write_tun(int fd, char *data, size_t len) { g_tun_writes++; g_tun_data = data; g_tun_len = len; return (int)len; }
int recent_seqno(int ourseqno, int gotseqno) { return nondet_bool(); }      /* the window function itself: group common_recent_seqno */
void write_dns_error_unused(void);
int verif_uncompress(unsigned char *dest, unsigned long *destLen, const unsigned char *source, unsigned long sourceLen)
{
	/* zlib (external, assumption A7): writes at most *destLen bytes, sets *destLen, Z_OK or an error */
	__CPROVER_assert(__CPROVER_w_ok(dest, *destLen), "uncompress: output writable for *destLen bytes");
	__CPROVER_assert(sourceLen == 0 || __CPROVER_r_ok(source, sourceLen), "uncompress: input readable for sourceLen bytes");
	g_unz_calls++; g_unz_src = source; g_unz_srclen = sourceLen; g_unz_dst = dest;
	unsigned long n = nondet_size_t();
	__CPROVER_assume(n <= *destLen);
	if (*destLen) __CPROVER_havoc_slice(dest, *destLen);
	g_unz_rc = nondet_bool() ? 0 : -3;
	if (g_unz_rc == 0) { *destLen = n; g_unz_out = n; }
	return g_unz_rc;
}
static void verif_stub_send_ping(int fd) { g_pings++; }
static void verif_stub_send_chunk(int fd)
{
	/* contract of send_chunk: sends the next fragment and records how many bytes of the packet it carries */
	__CPROVER_assert(outpkt.len > 0 && outpkt.offset >= 0 && outpkt.offset < outpkt.len, "send_chunk precondition: bytes of the upstream packet remain to be sent");
	g_chunks++;
	outpkt.sentlen = nondet_int();
	__CPROVER_assume(outpkt.sentlen >= 0 && outpkt.sentlen <= outpkt.len - outpkt.offset);
}
/* contract of read_dns_withq in DNS mode (proved on the real function in group cli_read_dns): result -1..buflen,
 * buf arbitrary, the query object filled with arbitrary id / type / rcode and a NUL-terminated name; no tun write */
static _Bool g_rd_badip; static int g_rd_rv; static unsigned char g_rd_b0, g_rd_b1, g_rd_ghost; static unsigned short g_rd_id; static char g_rd_c0;
static int verif_stub_read_dns_withq(int dns_fd, int tun_fd, char *buf, int buflen, struct query *q)
{
	__CPROVER_assert(buflen >= 2 && __CPROVER_w_ok(buf, buflen), "read_dns_withq: reply buffer writable for buflen bytes");
	__CPROVER_havoc_slice(buf, buflen);
	__CPROVER_havoc_object(q);
	q->name[sizeof(q->name) - 1] = 0;
	int rv = nondet_int();
	__CPROVER_assume(rv >= -1 && rv <= buflen);
	g_rd_rv = rv; g_rd_b0 = (unsigned char)buf[0]; g_rd_b1 = (unsigned char)buf[1]; g_rd_id = q->id; g_rd_c0 = q->name[0];
	g_rd_ghost = (2 + g_m < (size_t)buflen) ? (unsigned char)buf[2 + g_m] : 0;
	g_rd_badip = rv == 5 && buf[0] == 'B' && buf[1] == 'A' && buf[2] == 'D' && buf[3] == 'I' && buf[4] == 'P';
	return rv;
}
/* representation invariant of the client's packet state */
#define CLIENT_WF() (inpkt.len >= 0 && inpkt.len <= (int)sizeof(inpkt.data) && outpkt.len >= 0 && outpkt.len <= (int)sizeof(outpkt.data) && \
	outpkt.offset >= 0 && outpkt.offset <= outpkt.len && outpkt.sentlen >= 0 && outpkt.sentlen <= outpkt.len - outpkt.offset)
void h_tunnel_dns(void)
{
	__CPROVER_havoc_object(&inpkt); __CPROVER_havoc_object(&outpkt);
	__CPROVER_assume(CLIENT_WF());
	conn = CONN_DNS_NULL;
	chunkid = (unsigned short)nondet_int(); chunkid_prev = (unsigned short)nondet_int(); chunkid_prev2 = (unsigned short)nondet_int();
	userid_char = (char)nondet_int(); userid_char2 = (char)nondet_int();
	lazymode = nondet_int(); selecttimeout = nondet_int(); send_ping_soon = nondet_long();
	__CPROVER_assume(send_ping_soon >= 0 && send_ping_soon <= 1000);
	g_tun_writes = g_pings = g_chunks = g_unz_calls = 0;
	int in_len0 = inpkt.len, out_len0 = outpkt.len, out_off0 = outpkt.offset, out_sent0 = outpkt.sentlen;
	char in_seq0 = inpkt.seqno, in_frag0 = inpkt.fragment, out_seq0 = outpkt.seqno, out_frag0 = outpkt.fragment;
	int r = tunnel_dns(7, 8);
	int seq = (g_rd_b1 >> 5) & 7, frag = (g_rd_b1 >> 1) & 15, last = g_rd_b1 & 1, ack_seq = (g_rd_b0 >> 4) & 7, ack_frag = g_rd_b0 & 15;
	_Bool ours = g_rd_c0 == 'P' || g_rd_c0 == 'p' || g_rd_c0 == userid_char || g_rd_c0 == userid_char2;
	_Bool recent = g_rd_id == chunkid || g_rd_id == chunkid_prev || g_rd_id == chunkid_prev2;
	_Bool in_same = inpkt.len == in_len0 && inpkt.seqno == in_seq0 && inpkt.fragment == in_frag0;
	_Bool out_same = outpkt.len == out_len0 && outpkt.offset == out_off0 && outpkt.sentlen == out_sent0 && outpkt.seqno == out_seq0 && outpkt.fragment == out_frag0;
	/* C06: replies that do not match our recent queries are ignored */
	__CPROVER_assert((ours && recent && g_rd_rv >= 2 && !g_rd_badip) || (g_tun_writes == 0 && g_unz_calls == 0 && in_same && out_same && g_chunks == 0), "a reply that is not to one of our three most recent queries, does not start with our letter, or carries no data header changes nothing and delivers nothing");
	__CPROVER_assert(CLIENT_WF(), "the packet state invariant is preserved");
	/* C01: what reaches the tun device */
	__CPROVER_assert(g_tun_writes <= 1 && g_unz_calls <= 1, "at most one packet is delivered per reply");
	__CPROVER_assert(g_tun_writes == 0 || (g_unz_calls == 1 && g_unz_rc == 0 && g_tun_data == g_unz_dst && g_tun_len == g_unz_out && last), "only a successfully inflated packet is written to tun, with exactly the bytes and length zlib produced, and only on the last-fragment flag");
	__CPROVER_assert(g_unz_calls == 0 || (g_unz_src == (const void *)inpkt.data && g_unz_srclen <= sizeof(inpkt.data)), "zlib is given the reassembly buffer and its fill level");
	{
		/* fragments appended in this call */
		long base = inpkt.seqno != in_seq0 ? 0 : in_len0;           /* a reply with a new sequence number restarts the buffer */
		long appended = (g_unz_calls ? (long)g_unz_srclen : (long)inpkt.len) - base;
		_Bool dup = seq == in_seq0 && frag <= in_frag0 && !(in_frag0 == 0 && frag == 0 && in_len0 == 0);
		_Bool gap = seq == in_seq0 && frag > in_frag0 + 1;
		__CPROVER_assert(!(dup || gap) || (in_same && g_unz_calls == 0 && g_tun_writes == 0), "a duplicate of a fragment already received, or a fragment after a gap, is not appended");
		if (g_unz_calls || inpkt.len > base) {
			__CPROVER_assert(appended >= 0 && appended <= g_rd_rv - 2, "only bytes of this reply behind its 2-byte header are appended");
			__CPROVER_assert(!(g_m < (size_t)appended) || (unsigned char)inpkt.data[base + g_m] == g_rd_ghost, "appended bytes are the reply's bytes in order, placed at the fill level");
			__CPROVER_assert(inpkt.fragment == (char)frag && inpkt.seqno == (char)seq, "the fragment and sequence numbers of the reply are recorded");
		}
	}
	/* upstream: only a matching ack advances, by exactly the bytes sent */
	{
		_Bool ack = ours && recent && g_rd_rv >= 2 && !g_rd_badip && out_len0 != 0 && ack_seq == out_seq0 && ack_frag == out_frag0;
		__CPROVER_assert(ack || out_same, "only an ack for the fragment last sent moves the upstream packet");
		__CPROVER_assert(!ack || (out_off0 + out_sent0 >= out_len0 ? (outpkt.len == 0 && outpkt.offset == 0 && outpkt.sentlen == 0) : (outpkt.offset == out_off0 + out_sent0 && outpkt.fragment == (char)(out_frag0 + 1) && outpkt.len == out_len0 && g_chunks == 1)), "a matching ack advances by exactly the bytes sent (next fragment sent) or completes the packet");
	}
	VERIF_REACH();
}

/* ---- client tunnel_tun: a packet from the tun device becomes the upstream packet (C01) --------------------------- */
static int g_rt_ret, g_rt_calls, g_z_calls; static const void *g_rt_buf, *g_z_src, *g_z_dst; static unsigned long g_z_srclen, g_z_out;
ssize_t read_tun(int fd, char *buf, size_t len)
{
	__CPROVER_assert(__CPROVER_w_ok(buf, len), "read_tun: buffer writable for len bytes");
	g_rt_calls++; g_rt_buf = buf;
	__CPROVER_assume(g_rt_ret >= -1 && (size_t)(g_rt_ret < 0 ? 0 : g_rt_ret) <= len);
	return g_rt_ret;
}
int verif_compress2(unsigned char *dest, unsigned long *destLen, const unsigned char *source, unsigned long sourceLen, int level)
{
	/* zlib (external, A7): writes at most *destLen bytes into dest and reports how many */
	__CPROVER_assert(__CPROVER_w_ok(dest, *destLen), "compress2: output writable for *destLen bytes");
	__CPROVER_assert(sourceLen == 0 || __CPROVER_r_ok(source, sourceLen), "compress2: input readable for sourceLen bytes");
	g_z_calls++; g_z_src = source; g_z_srclen = sourceLen; g_z_dst = dest;
	unsigned long n = nondet_size_t();
	__CPROVER_assume(n >= 1 && n <= *destLen);          /* a zlib stream is never empty (2-byte header at least) */
	if (*destLen) __CPROVER_havoc_slice(dest, *destLen);
	*destLen = n; g_z_out = n;
	return 0;
}
void h_tunnel_tun(void)
{
	__CPROVER_havoc_object(&inpkt); __CPROVER_havoc_object(&outpkt);
	__CPROVER_assume(CLIENT_WF());
	conn = nondet_bool() ? CONN_DNS_NULL : CONN_RAW_UDP;
	userid = (char)nondet_int();
	g_rt_ret = nondet_int();
	g_rt_calls = g_z_calls = g_chunks = g_sendto_calls = g_tun_writes = 0;
	int out_len0 = outpkt.len, out_off0 = outpkt.offset, out_sent0 = outpkt.sentlen;
	char out_seq0 = outpkt.seqno, out_frag0 = outpkt.fragment;
	unsigned char ghost0 = g_m < sizeof(outpkt.data) ? (unsigned char)outpkt.data[g_m] : 0;
	int r = tunnel_tun(7, 8);
	_Bool out_same = outpkt.len == out_len0 && outpkt.offset == out_off0 && outpkt.sentlen == out_sent0 && outpkt.seqno == out_seq0 && outpkt.fragment == out_frag0
		&& (!(g_m < sizeof(outpkt.data)) || (unsigned char)outpkt.data[g_m] == ghost0);
	__CPROVER_assert(g_rt_calls == 1 && g_tun_writes == 0, "one packet is read from tun, nothing is written to it");
	/* C01: while a packet is still being sent upstream, a packet read only to drain the tun device must not disturb it -
	 * neither its position nor ONE BYTE of its data (arbitrary ghost index) */
	__CPROVER_assert(!(g_rt_ret <= 0 || out_len0 != 0) || (r == -1 && out_same && g_chunks == 0 && g_sendto_calls == 0), "no packet, or a packet while the previous one is still in flight: the upstream packet (position and every byte) is untouched and nothing is sent");
	if (g_rt_ret > 0 && out_len0 == 0) {
		__CPROVER_assert(g_z_calls == 1 && g_z_src == g_rt_buf && g_z_srclen == (unsigned long)g_rt_ret, "exactly the bytes read from tun are compressed");
		__CPROVER_assert(g_z_out <= sizeof(outpkt.data), "the compressed packet fits the upstream buffer (zlib's output buffer has the same capacity)");
		__CPROVER_assert(outpkt.seqno == ((out_seq0 + 1) & 7) && outpkt.fragment == 0 && outpkt.offset == 0, "a new upstream packet starts at fragment 0, offset 0, with the next sequence number");
		if (conn == CONN_DNS_NULL) {
			__CPROVER_assert(outpkt.len == (int)g_z_out && g_chunks == 1 && g_sendto_calls == 0, "DNS mode: the packet has exactly zlib's length and its first fragment is sent");
		} else {
			__CPROVER_assert(g_chunks == 0 && g_sendto_calls == 1 && g_sendto_len == (g_z_out < 4092 ? g_z_out : 4092) + 4 && (g_sendto_b3 & 0xF0) == RAW_HDR_CMD_DATA && outpkt.len == 0, "raw mode: one raw data frame with the compressed packet, nothing left pending");
		}
		__CPROVER_assert(r == g_rt_ret, "result = bytes read");
	}
	__CPROVER_assert(CLIENT_WF(), "the packet state invariant is preserved");
	VERIF_REACH();
}
#endif

/* ---- handshake parsers (C06: every reply-derived index stays inside its buffer; C13: what reaches tun_setip /
 * tun_setmtu; C19: which challenge value each login computation uses) -----------------------------------------
 * handshake_waitdns is replaced by its contract: the reply buffer is filled with arbitrary bytes and the result is
 * -3..buflen (read_dns_withq returns at most buflen: groups cli_namedec / dns_decode_answer_*). */
#ifdef STUB_HANDSHAKE
static int g_sends, g_hw_calls, g_hw_buflen, g_hw_ret; static char g_hw_c1;
static void verif_stub_send_login(int fd, char *login, int len) { __CPROVER_assert(len == 16 && __CPROVER_r_ok(login, 16), "send_login gets the 16-byte response"); g_sends++; }
static void verif_stub_send_version(int fd, unsigned version) { g_sends++; }
static void verif_stub_send_handshake_query(int fd, char *prefix) { __CPROVER_assert(__CPROVER_r_ok(prefix, 1), "send_handshake_query: prefix readable"); g_sends++; }
static void verif_stub_send_upenctest(int fd, const char *s) { g_sends++; }
static void verif_stub_send_downenctest(int fd, char downenc, int variant) { g_sends++; }
static void verif_stub_send_lazy_switch(int fd) { g_sends++; }
static void verif_stub_send_set_downstream_fragsize(int fd, int fragsize) { g_sends++; }
static void verif_stub_send_fragsize_probe(int fd, int fragsize) { g_sends++; }
static int verif_stub_handshake_waitdns(int dns_fd, char *buf, int buflen, char c1, char c2, int timeout)
{
	int r = nondet_int();
	__CPROVER_assert(buflen >= 0 && __CPROVER_w_ok(buf, buflen), "handshake_waitdns: reply buffer writable for buflen bytes");
	/* the callers' buffers are uninitialised locals, i.e. arbitrary bytes already: what the reply put there is arbitrary */
	__CPROVER_assume(r >= -3 && r <= buflen);
	g_hw_calls++; g_hw_buflen = buflen; g_hw_ret = r; g_hw_c1 = c1;
	return r;
}
/* sscanf(str, "%64[^-]-%64[^-]-%d-%d", a, b, c, d): reads the NUL-terminated string str; stores at most 64 characters + NUL
 * into a and b, two ints; returns the number of fields converted */
static int g_scan_calls;
static int verif_sscanf4(const char *str, char *a, char *b, int *c, int *d)
{
	size_t off = __CPROVER_POINTER_OFFSET(str), size = __CPROVER_OBJECT_SIZE(str);
	/* the bytes of the reply itself are arbitrary (possibly without a NUL), so a terminator must sit at or behind the
	 * reply's end: checked at the two places any correct idiom makes it hold for every reply - directly behind the
	 * reply (explicit terminator, or a buffer zeroed beforehand) or in the last byte of the buffer */
	_Bool terminated = (g_hw_ret >= 0 && off + (size_t)g_hw_ret < size && str[g_hw_ret] == 0) || ((const char *)str - off)[size - 1] == 0;
	__CPROVER_assert(__CPROVER_r_ok(str, 1), "sscanf: input readable");
	__CPROVER_assert(terminated, "sscanf: the input is a NUL-terminated string inside its buffer (no read of stale or foreign bytes behind the reply)");
	__CPROVER_assert(__CPROVER_w_ok(a, 65) && __CPROVER_w_ok(b, 65), "sscanf: %64[^-] destinations hold 64 characters + NUL");
	g_scan_calls++;
	int r = nondet_int();
	__CPROVER_assume(r >= 0 && r <= 4);
	if (r >= 1) { size_t k = nondet_size_t(); __CPROVER_assume(k >= 1 && k <= 64); __CPROVER_havoc_slice(a, 65); a[k] = 0; }
	if (r >= 2) { size_t k = nondet_size_t(); __CPROVER_assume(k >= 1 && k <= 64); __CPROVER_havoc_slice(b, 65); b[k] = 0; }
	if (r >= 3) *c = nondet_int();
	if (r >= 4) *d = nondet_int();
	return r;
}
void verif_errx(int code, const char *fmt, ...) { __CPROVER_assume(0); }
int verif_fflush(FILE *f) { return 0; }
int verif_select(int n, fd_set *r, fd_set *w, fd_set *e, struct timeval *tv) { return nondet_int(); }
static int g_recv_ret;
ssize_t verif_recv(int fd, void *buf, size_t len, int flags)
{
	__CPROVER_assert(__CPROVER_w_ok(buf, len), "recv: buffer writable for len bytes");
	g_recv_ret = nondet_int();
	__CPROVER_assume(g_recv_ret >= -1 && (size_t)(g_recv_ret < 0 ? 0 : g_recv_ret) <= len);
	return g_recv_ret;
}
/* other translation units */
static int g_lc_calls, g_lc_seed[4]; static const char *g_lc_pass[4];
void login_calculate(char *buf, int buflen, const char *pass, int seed)
{
	__CPROVER_assert(buflen >= 16 && __CPROVER_w_ok(buf, 16), "login_calculate: 16-byte output");
	if (g_lc_calls < 4) { g_lc_seed[g_lc_calls] = seed; g_lc_pass[g_lc_calls] = pass; }
	g_lc_calls++;
}
int b32_5to8(int in) { return "abcdefghijklmnopqrstuvwxyz012345"[in & 31]; }
int b32_8to5(int in) { int r = nondet_int(); __CPROVER_assume(r >= 0 && r < 32); return r; }
static int g_setip_calls, g_setip_ret, g_setip_bits, g_setmtu_calls, g_setmtu_ret; static unsigned g_setmtu_arg; static _Bool g_setip_terminated;
int tun_setip(const char *ip, const char *other_ip, int netbits)
{
	size_t i; _Bool t1 = 0, t2 = 0;
	/* precondition used by group tun_setip (C13): both strings NUL-terminated within 65 bytes */
	for (i = 0; i < 65; i++) { if (ip[i] == 0) { t1 = 1; break; } }
	for (i = 0; i < 65; i++) { if (other_ip[i] == 0) { t2 = 1; break; } }
	g_setip_terminated = t1 && t2;
	__CPROVER_assert(g_setip_terminated, "tun_setip gets two strings that are NUL-terminated within their 65-byte buffers");
	g_setip_calls++; g_setip_bits = netbits;
	g_setip_ret = nondet_int();
	return g_setip_ret;
}
int tun_setmtu(const unsigned mtu) { g_setmtu_calls++; g_setmtu_arg = mtu; g_setmtu_ret = nondet_int(); return g_setmtu_ret; }
char *format_addr(struct sockaddr_storage *a, int l) { static char b[8]; return b; }
const unsigned char raw_header[RAW_HDR_LEN] = { 0x10, 0xd1, 0x9e, 0x00 };     /* common.c; checked against the source by the extraction rules of the server TU */

static void hs_reset(void)
{
	running = 1;
	g_sends = g_hw_calls = g_scan_calls = g_lc_calls = g_setip_calls = g_setmtu_calls = g_sendto_calls = 0;
	userid = (char)nondet_int();
	lazymode = nondet_int(); selecttimeout = nondet_int();
	downenc = (char)nondet_int();
}
void h_hs_login(void)
{
	hs_reset();
	int seed = nondet_int();
	int r = handshake_login(8, seed);
	__CPROVER_assert(g_lc_calls == 1 && g_lc_seed[0] == seed && g_lc_pass[0] == password, "the login response is computed from the password and exactly the challenge received (C19)");
	__CPROVER_assert(g_setip_calls <= 1 && g_setmtu_calls <= 1, "the tunnel is configured at most once");
	__CPROVER_assert(r == 0 ? (g_setip_calls == 1 && g_setip_ret == 0 && g_setmtu_calls == 1 && g_setmtu_ret == 0) : 1, "login succeeds only when both configuration steps succeeded");
	__CPROVER_assert(g_setip_calls == 0 || g_scan_calls >= 1, "addresses come from the parsed login reply only");
	VERIF_REACH();
}
void h_hs_version(void)
{
	hs_reset();
	int seed = 0;
	int r = handshake_version(8, &seed);
	__CPROVER_assert(r == 0 || r == 1, "result 0 or 1");
	VERIF_REACH();
}
void h_hs_switch(void)
{
	hs_reset();
	int bits = nondet_int();
	if (nondet_bool()) handshake_switch_codec(8, bits);
	else if (nondet_bool()) handshake_switch_downenc(8);
	else if (nondet_bool()) handshake_try_lazy(8);
	else handshake_lazyoff(8);
	VERIF_REACH();
}
void h_hs_setfrag(void)
{
	hs_reset();
	int fragsize = nondet_int();
	if (nondet_bool()) handshake_set_fragsize(8, fragsize);
	else {
		static char in[4096];
		int read = nondet_int(), prop = nondet_int(), max = nondet_int();
		__CPROVER_assume(read >= -3 && read <= 4096);        /* handshake_waitdns result for a 4096-byte buffer */
		__CPROVER_assume(prop >= 0 && prop <= 2047);         /* handshake_autoprobe_fragsize proposes sizes in 0..2047 */
		fragsize_check(in, read, prop, &max);
	}
	VERIF_REACH();
}
void h_hs_tests(void)
{
	hs_reset();
	static char pattern[64];
	size_t n = nondet_size_t();
	__CPROVER_assume(n >= 1 && n <= 59);                      /* handshake_upenc_autodetect's test strings: at most 59 characters */
	__CPROVER_havoc_object(pattern);
	pattern[n] = 0; g_nul_obj = pattern; g_nul_at = n;
	do_qtype = (unsigned short)nondet_int();
	if (nondet_bool()) { int r = handshake_upenctest(8, pattern); __CPROVER_assert(r >= -1 && r <= 1, "upstream codec test: result -1, 0 or 1"); }
	else if (nondet_bool()) { int r = handshake_downenctest(8, (char)nondet_int()); __CPROVER_assert(r == 0 || r == 1, "downstream codec test: result 0 or 1"); }
	else { int r = handshake_qtypetest(8, nondet_int()); __CPROVER_assert(r == 0 || r == 1, "query type test: result 0 or 1"); }
	VERIF_REACH();
}
void h_hs_raw(void)
{
	hs_reset();
	int seed = nondet_int();
	int r = handshake_raw_udp(8, seed);
	/* C19: raw login sends the response for challenge+1 and accepts the server's proof for challenge-1 */
	__CPROVER_assert(g_sendto_calls == 0 || (g_lc_calls >= 1 && g_lc_seed[0] == (int)((unsigned)seed + 1u) && g_lc_pass[0] == password), "the raw login message carries the response for challenge + 1");
	__CPROVER_assert(g_sendto_calls == 0 || (g_sendto_len == 20 && (g_sendto_b3 & 0xF0) == RAW_HDR_CMD_LOGIN), "it is a 20-byte raw login frame");
	__CPROVER_assert(r == 0 || (g_lc_calls >= 2 && g_recv_ret >= 20), "raw mode is entered only after a reply of at least 20 bytes was compared with the response for challenge - 1");
	{ int k; for (k = 1; k < 4 && k < g_lc_calls; k++) __CPROVER_assert(g_lc_seed[k] == (int)((unsigned)seed + 1u) || g_lc_seed[k] == (int)((unsigned)seed - 1u), "every login computation uses challenge + 1 (towards the server) or challenge - 1 (back)"); }
	VERIF_REACH();
}
#endif


/* ---- read_dns_withq: the client's reply reader (C06; it establishes the contract the tunnel_dns / handshake groups assume:
 * result -1..buflen, nothing written outside buf[0..buflen), tun written only with a successfully inflated raw packet) ------ */
#ifdef STUB_READDNS
static int g_rcv_ret, g_tunw; static const void *g_tunw_data; static size_t g_tunw_len;
static int g_unz_calls2, g_unz_rc2; static const void *g_unz_dst2; static unsigned long g_unz_out2;
ssize_t verif_recvfrom_c(int fd, void *buf, size_t len, int flags, __SOCKADDR_ARG from, socklen_t *fromlen)
{
	__CPROVER_assert(__CPROVER_w_ok(buf, len), "recvfrom: buffer writable for len bytes");
	__CPROVER_assume(g_rcv_ret >= -1 && (size_t)(g_rcv_ret < 0 ? 0 : g_rcv_ret) <= len);
	return g_rcv_ret;
}
int write_tun(int fd, char *data, size_t len) { g_tunw++; g_tunw_data = data; g_tunw_len = len; return (int)len; }
int verif_uncompress(unsigned char *dest, unsigned long *destLen, const unsigned char *source, unsigned long sourceLen)
{
	__CPROVER_assert(__CPROVER_w_ok(dest, *destLen), "uncompress: output writable for *destLen bytes");
	__CPROVER_assert(sourceLen == 0 || __CPROVER_r_ok(source, sourceLen), "uncompress: input readable for sourceLen bytes");
	g_unz_calls2++; g_unz_dst2 = dest;
	unsigned long n = nondet_size_t();
	__CPROVER_assume(n <= *destLen);
	g_unz_rc2 = nondet_bool() ? 0 : -3;
	if (g_unz_rc2 == 0) { *destLen = n; g_unz_out2 = n; }
	return g_unz_rc2;
}
/* dns_decode, answer direction (groups dns_decode_answer_*): result -1..buflen; for MX/SRV the names are written one after
 * the other, each NUL-terminated, plus a final NUL, result = index of that final NUL <= buflen - 2 */
static int g_dd_rv; static unsigned short g_dd_type;
int dns_decode(char *buf, size_t buflen, struct query *q, qr_t qr, char *packet, size_t packetlen)
{
	__CPROVER_assert(qr == QR_ANSWER && buflen >= 2 && __CPROVER_w_ok(buf, buflen), "dns_decode: answer buffer of at least 2 bytes, writable for buflen bytes");
	__CPROVER_assert(packetlen == 0 || __CPROVER_r_ok(packet, packetlen), "dns_decode: datagram readable for its own length");
	__CPROVER_havoc_slice(buf, buflen);
	__CPROVER_havoc_object(q);
	q->type = g_dd_type;
	__CPROVER_assume(g_dd_rv >= -1 && (size_t)(g_dd_rv < 0 ? 0 : g_dd_rv) <= buflen);
	if (g_dd_type == T_MX || g_dd_type == T_SRV) {
		__CPROVER_assume(g_dd_rv < 0 || (size_t)g_dd_rv + 2 <= buflen);
		if (g_dd_rv >= 0) { buf[g_dd_rv] = 0; g_nul_obj = buf; g_nul_at = (size_t)g_dd_rv; }
	} else {
		/* single-record answers come out of dns_decode's rdata[4096] / name[256]: at most 4096 bytes, which is less than the
		 * capacity of read_dns_withq's datagram buffer (64 KB); in the verified text that buffer has 64 bytes and the same
		 * relation is kept by letting single-record answers have at most half of it */
		__CPROVER_assume(g_dd_rv <= (int)(sizeof(inpkt.data) / 2));
	}
	return g_dd_rv;
}
/* contract of dns_namedec (group cli_namedec): touches at most min(outdatalen, buflen) + 1 bytes of outdata, reads buf[0..buflen),
 * result 0..min(outdatalen, buflen) */
static int verif_stub_dns_namedec(char *outdata, int outdatalen, char *buf, int buflen)
{
	int r = nondet_int();
	__CPROVER_assert(buflen >= 1 && outdatalen >= 1, "dns_namedec: non-empty text and space");
	size_t room = (size_t)(outdatalen < buflen ? outdatalen : buflen) + 1;
	__CPROVER_assert(__CPROVER_w_ok(outdata, room), "dns_namedec: output has room for min(outdatalen, buflen) + 1 bytes");
	__CPROVER_assert(__CPROVER_rw_ok(buf, buflen), "dns_namedec: text readable (and writable: undotify) for buflen bytes");
	__CPROVER_assume(r >= 0 && (size_t)r + 1 <= room);
	__CPROVER_havoc_slice(outdata, room);
	return r;
}
void h_read_dns(void)
{
	int buflen = nondet_int();
	/* callers: handshake buffers of 4095/4096 bytes, tunnel_dns's 64 KB buffer - never more than read_dns_withq's own
	 * datagram buffer, which has the capacity of a packet payload (64 KB in the source, shrunk together in the verified text) */
	__CPROVER_assume(buflen >= 2 && (size_t)buflen <= sizeof(inpkt.data));
	char *buf = malloc(buflen);                       /* EXACTLY the space the caller offers */
	struct query q;
	conn = nondet_bool() ? CONN_DNS_NULL : CONN_RAW_UDP;
	userid = (char)nondet_int();
	g_rcv_ret = nondet_int(); g_dd_rv = nondet_int(); g_dd_type = (unsigned short)nondet_int();
	g_tunw = g_unz_calls2 = 0; g_nul_obj = 0;
	int r = read_dns_withq(8, 7, buf, buflen, &q);
	__CPROVER_assert(r >= -1 && r <= buflen, "read_dns_withq returns -1..buflen (what its callers index the reply buffer with)");
	if (conn == CONN_DNS_NULL)
		__CPROVER_assert(g_tunw == 0 && g_unz_calls2 == 0, "DNS mode: the reply reader itself delivers nothing");
	else {
		__CPROVER_assert(r == 0 || (r == -1 && g_rcv_ret < 0), "raw mode: nothing is handed to the DNS reply handlers (-1 only on a receive error)");
		__CPROVER_assert(g_tunw <= 1 && (g_tunw == 0 || (g_unz_calls2 == 1 && g_unz_rc2 == 0 && g_tunw_data == g_unz_dst2 && g_tunw_len == g_unz_out2 && g_rcv_ret >= 4)), "raw mode: tun gets only a successfully inflated packet, with zlib's bytes and length");
	}
	VERIF_REACH();
}
#endif


/* ---- the client's upstream name builders (C08: header characters and what build_hostname is asked to carry; C01: the
 * fragment sent is the unsent part of the packet and sentlen is what the builder reports) ---------------------------------- */
#ifdef STUB_SENDERS
static int g_sq_calls; static char *g_sq_name; static char g_sq_h[5]; static _Bool g_sq_data_at_5, g_sq_data_at_1;
static char *g_bh_buf;
static void verif_stub_send_query(int fd, char *hostname)
{
	int k;
	__CPROVER_assert(__CPROVER_r_ok(hostname, 5), "send_query: name readable");
	g_sq_calls++; g_sq_name = hostname;
	g_sq_data_at_5 = g_bh_buf == hostname + 5; g_sq_data_at_1 = g_bh_buf == hostname + 1;
	for (k = 0; k < 5; k++) g_sq_h[k] = hostname[k];          /* ghost copy of the header characters */
}
static int g_bh_calls, g_bh_ret; static size_t g_bh_buflen, g_bh_datalen, g_bh_maxlen; static const char *g_bh_data, *g_bh_top; static const struct encoder *g_bh_enc;
int build_hostname(char *buf, size_t buflen, const char *data, const size_t datalen, const char *topdomain_, const struct encoder *encoder, int maxlen)
{
	/* groups enc_build_hostname_b5/6/7: a NUL-terminated legal name carrying the first `result` bytes (1..datalen), at most
	 * maxlen - 5 characters, written into buf[0..buflen) */
	__CPROVER_assert(buflen >= 300 && __CPROVER_w_ok(buf, buflen), "build_hostname: name buffer of at least 300 bytes, writable for buflen bytes");
	__CPROVER_assert(datalen >= 1 && __CPROVER_r_ok(data, datalen), "build_hostname: non-empty payload, readable for datalen bytes");
	g_bh_calls++; g_bh_buf = buf; g_bh_buflen = buflen; g_bh_data = data; g_bh_datalen = datalen; g_bh_top = topdomain_; g_bh_enc = encoder; g_bh_maxlen = (size_t)maxlen;
	__CPROVER_assume(g_bh_ret >= 1 && (size_t)g_bh_ret <= datalen);
	return g_bh_ret;
}
int b32_5to8(int in) { return "abcdefghijklmnopqrstuvwxyz012345"[in & 31]; }
#define B32C(v) ("abcdefghijklmnopqrstuvwxyz012345"[(v) & 31])
static char g_top[8];
void h_send_chunk(void)
{
	__CPROVER_havoc_object(&inpkt); __CPROVER_havoc_object(&outpkt);
	__CPROVER_assume(CLIENT_WF() && outpkt.len > 0 && outpkt.offset < outpkt.len);      /* call sites: is_sending() and bytes remain (asserted there) */
	userid_char = (char)nondet_int(); hostname_maxlen = nondet_int(); topdomain = g_top;
	dataenc = nondet_bool() ? &base32_ops : nondet_bool() ? &base64_ops : nondet_bool() ? &base64u_ops : &base128_ops;
	g_sq_calls = g_bh_calls = 0; g_bh_ret = nondet_int();
	int len0 = outpkt.len, off0 = outpkt.offset;
	char useq = outpkt.seqno, ufrag = outpkt.fragment, dseq = inpkt.seqno, dfrag = inpkt.fragment;
	unsigned char ghost0 = g_m < sizeof(outpkt.data) ? (unsigned char)outpkt.data[g_m] : 0;
	verif_real_send_chunk(8);
	int avail = len0 - off0;
	__CPROVER_assert(g_bh_calls == 1 && g_bh_data == outpkt.data + off0 && g_bh_datalen == (size_t)avail, "the name builder is offered exactly the unsent rest of the packet");
	__CPROVER_assert(g_bh_top == g_top && g_bh_enc == dataenc && g_bh_maxlen == (size_t)hostname_maxlen && g_bh_buflen == 4096 - 5, "with the tunnel domain, the negotiated upstream codec and the configured length limit");
	__CPROVER_assert(outpkt.sentlen == g_bh_ret, "sentlen is exactly what the builder reports as carried (it advances the offset on ack)");
	__CPROVER_assert(outpkt.len == len0 && outpkt.offset == off0 && outpkt.seqno == useq && outpkt.fragment == ufrag && (!(g_m < sizeof(outpkt.data)) || (unsigned char)outpkt.data[g_m] == ghost0), "sending a fragment does not change the packet");
	__CPROVER_assert(g_sq_calls == 1 && g_sq_data_at_5, "one query; the data part follows the 5-character header");
	/* header as documented (doc/proto_00000502.txt, "Upstream data header": UUUU | SSS FF | FF DDD | GGGG L | CMC) */
	__CPROVER_assert(g_sq_h[0] == userid_char, "header character 1 is the userid");
	__CPROVER_assert(g_sq_h[1] == B32C(((useq & 7) << 2) | ((ufrag & 15) >> 2)), "header character 2: upstream sequence number (3 bits) and the upper two bits of the fragment number");
	__CPROVER_assert(g_sq_h[2] == B32C(((ufrag & 3) << 3) | (dseq & 7)), "header character 3: lower two bits of the fragment number and the downstream sequence number being acknowledged");
	__CPROVER_assert(g_sq_h[3] == B32C(((dfrag & 15) << 1) | (g_bh_ret == avail)), "header character 4: downstream fragment being acknowledged and the last-fragment flag, set exactly when this name carries the rest of the packet");
	__CPROVER_assert((g_sq_h[4] >= 'a' && g_sq_h[4] <= 'z') || (g_sq_h[4] >= '0' && g_sq_h[4] <= '9'), "header character 5: cache-miss counter from a-z0-9");
	VERIF_REACH();
}
#endif

#ifdef STUB_SENDERS
void h_send_packet(void)
{
	static char data[32];
	size_t datalen = nondet_size_t();
	char cmd = (char)nondet_int();
	__CPROVER_assume(datalen >= 1 && datalen <= sizeof(data));         /* callers: 19 (login), 6 (version), 5 (fragsize), 4 (ping) bytes */
	hostname_maxlen = nondet_int(); topdomain = g_top;
	g_sq_calls = g_bh_calls = 0; g_bh_ret = nondet_int();
	send_packet(8, cmd, data, datalen);
	__CPROVER_assert(g_bh_calls == 1 && g_bh_data == data && g_bh_datalen == datalen && g_bh_top == g_top && g_bh_enc == &base32_ops && g_bh_maxlen == (size_t)hostname_maxlen && g_bh_buflen == 4096 - 1, "handshake and ping messages: the whole message is offered to the name builder, always in Base32, with the tunnel domain and the length limit");
	__CPROVER_assert(g_sq_calls == 1 && g_sq_data_at_1 && g_sq_h[0] == cmd, "one query: command letter, then the data part");
	VERIF_REACH();
}
void h_send_probe(void)
{
	int fragsize = nondet_int();
	userid = (char)nondet_int();                                     /* the byte the server put into its version reply */
	hostname_maxlen = nondet_int(); topdomain = g_top;
	dataenc = nondet_bool() ? &base32_ops : &base128_ops;
	g_sq_calls = g_bh_calls = 0; g_bh_ret = nondet_int();
	send_fragsize_probe(8, fragsize);
	__CPROVER_assert(g_bh_calls == 1 && g_bh_datalen == 256 && g_bh_top == g_top && g_bh_enc == dataenc && g_bh_maxlen == (size_t)hostname_maxlen && g_bh_buflen == 4096 - 5, "the probe name is built like a data chunk (same space, codec, domain, limit)");
	__CPROVER_assert(g_sq_calls == 1 && g_sq_data_at_5 && g_sq_h[0] == 'r' && g_sq_h[1] == B32C(((userid & 15) << 1) | ((fragsize >> 10) & 1)) && g_sq_h[2] == B32C((fragsize >> 5) & 31) && g_sq_h[3] == B32C(fragsize & 31) && g_sq_h[4] == 'd', "probe header: r, userid and the 11-bit fragment size in Base32 digits, dummy CMC");
	VERIF_REACH();
}
#endif
