/* C20 (ring part): src/fw_query.c.  Harness style; the ring has a literal size (16), so its
 * loops are unrolled exactly.  State on entry is arbitrary up to the representation invariant
 * 0 <= fwq_ix < 16. */
#include <string.h>
#include <stdlib.h>
#include "lib/verif.h"
#include <fw_query.c>
#if defined(VERIF_CBMC) && !defined(VERIF_WITNESS)
int nondet_int(void);
unsigned short nondet_ushort(void);
static void any_state(void)
{
	struct fw_query any[FW_QUERY_CACHE_SIZE];
	memcpy(fwq, any, sizeof fwq);
	fwq_ix = nondet_int();
	__CPROVER_assume(fwq_ix >= 0 && fwq_ix < FW_QUERY_CACHE_SIZE);
}
#define SAME_ENTRY(a, b, g) ((a).id == (b).id && (a).addrlen == (b).addrlen && ((unsigned char *)&(a).addr)[g] == ((unsigned char *)&(b).addr)[g])

void h_fwq_put(void)
{
	any_state();
	struct fw_query e, before;
	int ix0 = fwq_ix, k = nondet_int();
	size_t g = (size_t)nondet_int();
	__CPROVER_assume(k >= 0 && k < FW_QUERY_CACHE_SIZE && g < sizeof(struct sockaddr_storage));
	before = fwq[k];
	fw_query_put(&e);
	__CPROVER_assert(SAME_ENTRY(fwq[ix0], e, g), "fw_query_put stores the entry (id, addrlen, every address byte) at the write position");
	__CPROVER_assert(fwq_ix == (ix0 + 1) % FW_QUERY_CACHE_SIZE, "fw_query_put advances the write position modulo 16");
	__CPROVER_assert(k == ix0 || SAME_ENTRY(fwq[k], before, g), "fw_query_put leaves every other slot unchanged");
	VERIF_REACH();
}

void h_fwq_get(void)
{
	any_state();
	unsigned short id = nondet_ushort();
	struct fw_query *out, before;
	int k = nondet_int();
	size_t g = (size_t)nondet_int();
	__CPROVER_assume(k >= 0 && k < FW_QUERY_CACHE_SIZE && g < sizeof(struct sockaddr_storage));
	before = fwq[k];
	fw_query_get(id, &out);
	__CPROVER_assert(out != NULL || fwq[k].id != id, "fw_query_get: NULL only if no slot has that id");
	__CPROVER_assert(out == NULL || (out >= &fwq[0] && out <= &fwq[FW_QUERY_CACHE_SIZE - 1] && out->id == id), "fw_query_get: a hit is a slot of the ring with that id");
	__CPROVER_assert(out == NULL || &fwq[k] >= out || fwq[k].id != id, "fw_query_get: the hit is the lowest matching slot");
	__CPROVER_assert(SAME_ENTRY(fwq[k], before, g), "fw_query_get does not modify the ring");
	VERIF_REACH();
}

void h_fwq_init(void)
{
	any_state();
	int k = nondet_int();
	size_t g = (size_t)nondet_int();
	__CPROVER_assume(k >= 0 && k < FW_QUERY_CACHE_SIZE && g < sizeof(struct sockaddr_storage));
	fw_query_init();
	__CPROVER_assert(fwq_ix == 0 && fwq[k].id == 0 && fwq[k].addrlen == 0 && ((unsigned char *)&fwq[k].addr)[g] == 0, "fw_query_init zeroes the ring");
	VERIF_REACH();
}

/* history lemma: after the 16 most recent puts (pairwise distinct ids), a get for the id of the
 * j-th of them returns exactly that entry, whatever the ring held before and wherever the write
 * position was */
void h_fwq_ring(void)
{
	any_state();
	struct fw_query e[FW_QUERY_CACHE_SIZE], *out;
	int i, j2, j = nondet_int();
	size_t g = (size_t)nondet_int();
	__CPROVER_assume(j >= 0 && j < FW_QUERY_CACHE_SIZE && g < sizeof(struct sockaddr_storage));
	for (i = 0; i < FW_QUERY_CACHE_SIZE; i++)
		for (j2 = 0; j2 < i; j2++)
			__CPROVER_assume(e[i].id != e[j2].id);
	for (i = 0; i < FW_QUERY_CACHE_SIZE; i++)
		fw_query_put(&e[i]);
	fw_query_get(e[j].id, &out);
	__CPROVER_assert(out != NULL && SAME_ENTRY(*out, e[j], g), "ring: each of the 16 most recent entries with distinct ids is found with its own address");
	VERIF_REACH();
}
#endif
