/* C07 (and the safety obligations of C05/C06 for the codecs): the real codec file, textually */
#include <stdlib.h>
#include "lib/verif.h"
#include "spec/codec.h"
size_t g_j[3], g_o, g_k;
#if CODEC != 128
static const unsigned char spec_alpha[] = C_ALPHA_LIT;
#endif
/* the decoder's frame also contains the file's lazily built reverse table */
static unsigned char C_REVTAB[256];
static int reverse_init;
#define VERIF_REVTAB_FRAME __CPROVER_object_whole(C_REVTAB), reverse_init
#ifdef VERIF_REPLAY
#define VERIF_REACH() ((void)0)
#else
#include "contracts/codec.h"
#endif
#include C_SRC

void h_encode(void)
{
	char *buf; size_t *buflen; const void *data; size_t size;
	C_ENCODE(buf, buflen, data, size);
	VERIF_REACH();
}

void h_revinit(void)
{
	C_REVINIT();
	VERIF_REACH();
}

void h_decode(void)
{
	void *buf; size_t *buflen; const char *str; size_t slen;
	C_DECODE(buf, buflen, str, slen);
	VERIF_REACH();
}

#ifndef VERIF_REPLAY
size_t nondet_size_t(void);
int nondet_int(void);
unsigned nondet_unsigned(void);

/* Round trip (C07): decode(encode(x)) == x[0..k), k = the byte count the encoder reports.
 * Both calls are replaced by their contracts, so this is a lemma over the two contracts
 * (ghost indices are picked after the fact, which is sound because they are arbitrary). */
void h_roundtrip(void)
{
	size_t size = nondet_size_t(), cap = nondet_size_t(), ocap = nondet_size_t();
	__CPROVER_assume(size <= CMAX && cap <= 2 * CMAX && ocap <= 2 * CMAX);
	unsigned char *data = malloc(size);
	char *buf = malloc(cap + 1);
	size_t *bl = malloc(sizeof(size_t));
	size_t *ol = malloc(sizeof(size_t));
	unsigned char *out = malloc(ocap + 1);
	__CPROVER_assume(reverse_init == 0);
	*bl = cap;
	int r = C_ENCODE(buf, bl, data, size);
	size_t k = *bl;
	*ol = ocap;
	int r2 = C_DECODE(out, ol, buf, (size_t)r);
	/* instantiate the ghost positions */
	size_t nx = SPEC_ENCLEN(CBITS, (size_t)r2 + 1);
	if (nondet_int()) {
		__CPROVER_assume(g_j[0] == nx - 1 && g_j[1] == nx - 2);
		/* the emitted text decodes to exactly the k bytes the encoder reported */
		__CPROVER_assert((size_t)r2 == (ocap < k ? ocap : k), "roundtrip: decoded length == bytes the encoder reported (or the output capacity)");
	} else {
		__CPROVER_assume(g_o < (size_t)r2);
		__CPROVER_assume(g_j[0] == SPEC_J0(CBITS, g_o) && g_j[1] == g_j[0] + 1 && g_j[2] == g_j[0] + 2);
		__CPROVER_assert(out[g_o] == data[g_o], "roundtrip: every decoded byte equals the input byte");
	}
	VERIF_REACH();
}

/* alphabet lemma: documented character classes, no NUL, no dot, reverse map inverts it */
void h_alphabet(void)
{
	unsigned v = nondet_unsigned();
	__CPROVER_assume(v < (1u << CBITS));
	unsigned c = C_ALPHA(v);
	__CPROVER_assert(c != 0 && c != '.' && c < 256, "alphabet: no NUL, no dot");
	__CPROVER_assert(C_REV(c) == v, "alphabet: reverse map inverts the alphabet");
#if CODEC == 32
	__CPROVER_assert((c >= 'a' && c <= 'z') || (c >= '0' && c <= '5'), "alphabet: Base32 is a-z0-5");
	__CPROVER_assert(c < 'a' || SPEC_REV32(c - 32) == v, "alphabet: Base32 decodes upper case to the same value");
#elif CODEC == 64
	__CPROVER_assert((c >= 'a' && c <= 'z') || (c >= 'A' && c <= 'Z') || (c >= '0' && c <= '9') || c == '-' || c == '+', "alphabet: Base64 is a-zA-Z0-9-+");
#elif CODEC == 65
	__CPROVER_assert((c >= 'a' && c <= 'z') || (c >= 'A' && c <= 'Z') || (c >= '0' && c <= '9') || c == '-' || c == '_', "alphabet: Base64u is a-zA-Z0-9-_");
#else
	__CPROVER_assert((c >= 'a' && c <= 'z') || (c >= 'A' && c <= 'Z') || (c >= '0' && c <= '9') || (c >= 0xBC && c <= 0xFD), "alphabet: Base128 is a-zA-Z0-9 and 0xBC-0xFD");
#endif
	unsigned w = nondet_unsigned();
	__CPROVER_assume(w < (1u << CBITS) && w != v);
	__CPROVER_assert(C_ALPHA(w) != c, "alphabet: characters are distinct");
	VERIF_REACH();
}

#if CODEC == 32
void h_5to8(void) { int in; b32_5to8(in); VERIF_REACH(); }
void h_8to5(void) { int in; b32_8to5(in); VERIF_REACH(); }
#endif
#endif /* !VERIF_REPLAY */

#if defined(VERIF_WITNESS) || defined(VERIF_REPLAY)
/* bounded witness search / native replay of the same clauses (DESIGN 4.7) */
#include "lib/wit.h"
#ifndef WN
#define WN 6
#endif
void w_encode(void)
{
	WIT_SCALAR(size_t, size);
	WIT_SCALAR(size_t, cap);
	WIT_ASSUME(size <= WN && cap <= 2 * WN);
	WIT_BYTES(data, WN, size);
	WIT_OUT(buf, cap + 1);
	size_t used = cap, j;
	int r = C_OPS.encode((char *)buf, &used, data, size);
	WIT_CHECK(ENC_POST_LEN(r, cap, used, size), "encoder length/capacity/maximality clause");
	WIT_CHECK(buf[r] == 0, "encoder terminator");
	for (j = 0; j < (size_t)r && j < 2 * WN; j++)
		WIT_CHECK(ENC_CHAR_OK(buf, data, size, j), "encoder character is the documented bit-stream character");
}
void w_decode(void)
{
	WIT_SCALAR(size_t, slen);
	WIT_SCALAR(size_t, cap);
	WIT_ASSUME(slen <= WN && cap <= WN);
	WIT_BYTES(str, WN, slen);
	WIT_OUT(out, cap + 1);
	size_t ocap = cap, g;
	int r = C_OPS.decode(out, &ocap, (const char *)str, slen);
	WIT_CHECK(DEC_POST_LEN(r, cap, str, slen), "decoder length clause");
	for (g = 0; g < SPEC_ENCLEN(CBITS, r) && g < WN; g++)
		WIT_CHECK(str[g] != 0, "decoder consumed a NUL");
	for (g = 0; g < (size_t)r && g < WN; g++)
		WIT_CHECK(DEC_BYTE_OK(out, str, g), "decoder byte is the regrouped stream of reverse-mapped characters");
}
void w_roundtrip(void)
{
	WIT_SCALAR(size_t, size);
	WIT_SCALAR(size_t, cap);
	WIT_ASSUME(size <= WN && cap <= 2 * WN);
	WIT_BYTES(data, WN, size);
	WIT_OUT(buf, cap + 1);
	WIT_OUT(out, WN + 1);
	size_t used = cap, ocap = WN, g;
	int r = C_OPS.encode((char *)buf, &used, data, size);
	int r2 = C_OPS.decode(out, &ocap, (const char *)buf, (size_t)r);
	WIT_CHECK((size_t)r2 == used, "roundtrip length");
	for (g = 0; g < used && g < WN; g++)
		WIT_CHECK(out[g] == data[g], "roundtrip byte");
}
#if CODEC == 32
void w_8to5(void)
{
	WIT_SCALAR(int, in);
	int r = b32_8to5(in);
	WIT_CHECK(r >= 0 && r < 32 && (unsigned)r == C_REV((unsigned char)in), "b32_8to5 value");
}
void w_5to8(void)
{
	WIT_SCALAR(int, in);
	WIT_CHECK((unsigned)b32_5to8(in) == C_ALPHA(((unsigned)in) & 31u), "b32_5to8 value");
}
#endif
#ifdef VERIF_REPLAY
WIT_MAIN(WIT_ENTRY)
#endif
#endif
