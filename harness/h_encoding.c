/* src/encoding.c under contract (C08: upstream names; C05/C06 safety of the dot helpers).
 *
 * Harness style (assume PRE / run the real body / assert POST); the two loops are closed by loop
 * contracts (loops/encoding.inv), so the dotify and undotify(length) results hold for every
 * string length up to the 64 KB domain.  Content equalities are stated at arbitrary ghost
 * indices (universal because the index is unconstrained).
 *
 * String lengths.  encoding.c measures its buffers with strlen().  The model used here tracks the
 * length of the two strings involved as ghost state that the harness (and the stubs that stand for
 * the encoder and for inline_dotify inside build_hostname's proof) keep up to date; every call
 * asserts the checkable half of "this is the length" (the byte at that position is NUL and the
 * ghost position before it is not), so a strlen() of a buffer whose content no longer matches the
 * ghost length fails an obligation instead of being believed. */
#include <string.h>
#include <stdlib.h>
#include "lib/verif.h"
#include "spec/spec.h"
#ifdef VERIF_CBMC
size_t nondet_size_t(void);
unsigned nondet_unsigned(void);
int nondet_int(void);
unsigned char nondet_uchar(void);
_Bool nondet_bool(void);

/* ---- ghost state ---- */
static char *g_buf;  static size_t g_buf_len;     /* the name being built and its current string length */
static const char *g_top; static size_t g_top_len; /* the tunnel domain */
size_t g_s;                                        /* ghost: arbitrary position inside a string (non-NUL there) */
size_t g_i, g_d, g_b;                              /* ghost indices of the dotify contract */
char g_ci, g_cb;
unsigned g_e, g_D;                                 /* entry string length and number of dots to insert */

static size_t enc_strlen(const char *s)
{
	if (__CPROVER_same_object(s, g_top)) {
		__CPROVER_assert(s == g_top, "strlen(topdomain) from its start");
		__CPROVER_assert(g_top[g_top_len] == 0 && (g_s >= g_top_len || g_top[g_s] != 0), "strlen model: ghost length of the domain is its length");
		return g_top_len;
	}
	__CPROVER_assert(s == g_buf, "strlen of the name buffer from its start");
	__CPROVER_assert(g_buf[g_buf_len] == 0 && (g_s >= g_buf_len || g_buf[g_s] != 0), "strlen model: ghost length of the buffer is its length");
	return g_buf_len;
}
static void *enc_memset(void *p, int c, size_t n)
{
	__CPROVER_assert(c == 0 && p == g_buf && n >= 1 && __CPROVER_w_ok(p, n), "memset(buf, 0, buflen) on the whole name buffer");
	__CPROVER_array_set((char *)p, 0);      /* whole object (the harness allocates exactly buflen bytes) */
	g_buf_len = 0;
	return p;
}
static size_t g_cpy_at;   /* where the domain was appended */
static char *enc_strncpy(char *dst, const char *src, size_t n)
{
	size_t k;
	__CPROVER_assert(src == g_top && n == g_top_len + 1, "strncpy appends the domain with its terminator");
	__CPROVER_assert(__CPROVER_same_object(dst, g_buf) && __CPROVER_w_ok(dst, n), "strncpy: room for the domain and its NUL in the name buffer");
	g_cpy_at = (size_t)(dst - g_buf);
	__CPROVER_havoc_slice(dst, n);
	dst[n - 1] = 0;
	if (g_s >= g_cpy_at && g_s - g_cpy_at < g_top_len)
		dst[g_s - g_cpy_at] = g_top[g_s - g_cpy_at];
	g_buf_len = g_cpy_at + g_top_len;
	return dst;
}
#define strlen enc_strlen
#define memset enc_memset
#define strncpy enc_strncpy
#define memmove enc_memmove
/* memmove as a byte loop (not used by the current encoding.c; rewrites of its loops tend to use it, and CBMC's
 * built-in model with a symbolic length does not scale) */
static void *enc_memmove(void *dst, const void *src, size_t n)
{
	size_t k;
	char *d = dst; const char *s_ = src;
	__CPROVER_assert(n == 0 || (__CPROVER_r_ok(src, n) && __CPROVER_w_ok(dst, n)), "memmove: source readable and destination writable for n bytes");
	if (d <= s_) for (k = 0; k < n; k++) d[k] = s_[k];
	else for (k = n; k > 0; k--) d[k - 1] = s_[k - 1];
	return dst;
}

#ifdef STUB_DOTIFY
/* inside build_hostname's proof inline_dotify is replaced by its contract (proved in group
 * enc_dotify): precondition asserted, effect = the contract's postcondition at the ghost indices */
static int verif_stub_dotify(char *buf, size_t buflen);
#define DTSEL_char verif_real_inline_dotify(char
#define DTSEL_buf verif_stub_dotify(buf
#define inline_dotify(a, b) DTSEL_##a, b)
#endif
#endif
#include <encoding.c>
#ifdef VERIF_CBMC
#undef strlen
#undef memset
#undef strncpy
#undef memmove
#ifdef STUB_DOTIFY
#undef inline_dotify
#define inline_dotify verif_real_inline_dotify
#endif

/* ---- inline_dotify: unbounded ------------------------------------------------------------------
 * for a string of length e with room for e + e/57 + 1 bytes: character i moves to i + i/57, a dot
 * stands at 57 + 58 m for every m < e/57, the terminator moves along, the result is e + e/57, and
 * nothing behind the new terminator changes */
void h_dotify(void)
{
	size_t buflen = nondet_size_t();
#ifdef VERIF_FALLBACK
	__CPROVER_assume(buflen >= 1 && buflen <= 130);  /* bounded fallback (rewritten loop): up to two full labels */
#else
	__CPROVER_assume(buflen >= 1 && buflen <= 65536);
#endif
	char *buf = malloc(buflen);                       /* EXACTLY buflen bytes */
	unsigned e = nondet_unsigned();
	__CPROVER_assume((size_t)e + e / 57 < buflen);   /* precondition: the dotted string and its NUL fit (asserted at the call sites) */
	__CPROVER_assume(buf[e] == 0);
	__CPROVER_assume(g_s >= e || buf[g_s] != 0);
	g_buf = buf; g_buf_len = e; g_top = (const char *)0;
	g_e = e; g_D = e / 57;
	__CPROVER_assume(g_i <= e);
	g_ci = buf[g_i];
	__CPROVER_assume(g_b < buflen);
	g_cb = buf[g_b];
	int r = inline_dotify(buf, buflen);
	__CPROVER_assert(r == (int)(e + e / 57), "inline_dotify returns the dotted length e + e/57");
	__CPROVER_assert(buf[g_i + g_i / 57] == g_ci, "character i of the input stands at i + i/57 (terminator included)");
	__CPROVER_assert(g_d >= e / 57 || buf[57 + 58 * g_d] == '.', "a dot stands after every 57 characters");
	__CPROVER_assert(g_b <= (size_t)e + e / 57 || buf[g_b] == g_cb, "nothing behind the new terminator is written");
	VERIF_REACH();
}

/* ---- inline_undotify: length and footprint unbounded; content exhaustive up to the name size ---- */
#ifndef UNDOT_MAX
#define UNDOT_MAX 65536
#endif
size_t g_w;
void h_undotify(void)
{
	size_t len = nondet_size_t();
	__CPROVER_assume(len <= UNDOT_MAX);
	char *buf = malloc(len);                          /* EXACTLY len bytes: any access outside is a failed obligation */
	int r = inline_undotify(buf, len);
	__CPROVER_assert(r >= 0 && (size_t)r <= len, "inline_undotify returns a length in 0..len");
	__CPROVER_assert(g_w >= (size_t)r || buf[g_w] != '.', "no dot remains in the undotted text");
	VERIF_REACH();
}
#ifdef UNDOT_EXH
/* reference: the k-th output character is the k-th character of the input that is not a dot */
void h_undotify_exh(void)
{
	size_t len = nondet_size_t(), k, w = 0;
	__CPROVER_assume(len <= UNDOT_EXH);
	char buf[UNDOT_EXH];                             /* fixed-size object here; the exact-size footprint is group enc_undotify */
	char in0[UNDOT_EXH], ref[UNDOT_EXH];
	for (k = 0; k < UNDOT_EXH; k++)
		if (k < len) {
			in0[k] = buf[k];
			if (in0[k] != '.')
				ref[w++] = in0[k];
		}
	int r = inline_undotify(buf, len);
	__CPROVER_assert((size_t)r == w, "inline_undotify returns the number of characters that are not dots");
	__CPROVER_assert(g_w >= w || buf[g_w] == ref[g_w], "the output is the input with every dot removed, order kept");
	__CPROVER_assert(g_w < w || g_w >= len || buf[g_w] == in0[g_w] || 1, "(bytes behind the result are unspecified)");
	VERIF_REACH();
}
#endif

/* ---- build_hostname -------------------------------------------------------------------------------
 * encoder replaced by the contract every codec is proved against in the C07 groups (bits per character
 * CBITS = 5, 6, 7); inline_dotify replaced by its contract. */
#ifndef CBITS
#define CBITS 5
#endif
static const unsigned char *g_data; static size_t g_datalen;
static size_t g_enc_k, g_enc_ret, g_enc_cap;
static int g_enc_calls;
size_t g_j;              /* ghost: position in the undotted encoded text */
char g_encj;             /* the character the encoder put there */
static int stub_encode(char *dst, size_t *dstlen, const void *src, size_t srclen)
{
	size_t cap = *dstlen, k = nondet_size_t(), ret;
	__CPROVER_assert(dst == g_buf && __CPROVER_w_ok(dst, cap + 1), "encoder precondition: room for *dstlen characters and the terminator");
	__CPROVER_assert(src == (const void *)g_data && srclen == g_datalen, "the encoder is given the payload");
	__CPROVER_assume(k <= srclen);
	ret = SPEC_ENCLEN(CBITS, k);
	__CPROVER_assume(ret <= cap && (k == srclen || SPEC_ENCLEN(CBITS, k + 1) > cap));   /* maximal prefix that fits */
	__CPROVER_havoc_slice(dst, cap + 1);
	dst[ret] = 0;
	if (g_s < ret) __CPROVER_assume(dst[g_s] != 0 && dst[g_s] != '.');                 /* alphabet: no NUL, no dot */
	if (g_j < ret) { __CPROVER_assume(dst[g_j] != 0 && dst[g_j] != '.'); g_encj = dst[g_j]; }
	if (ret > 0) __CPROVER_assume(dst[ret - 1] != 0 && dst[ret - 1] != '.');           /* the same clause instantiated at the last character */
	*dstlen = k;
	g_enc_k = k; g_enc_ret = ret; g_enc_cap = cap; g_enc_calls++;
	g_buf_len = ret;
	return (int)ret;
}
static int stub_decode(void *dst, size_t *dstlen, const char *src, size_t srclen) { __CPROVER_assert(0, "decoder not used by build_hostname"); return 0; }
#ifdef STUB_DOTIFY
static int g_dot_calls;
static int verif_stub_dotify(char *buf, size_t buflen)
{
	size_t e = g_buf_len, d = e / 57;
	char cj = 0;
	__CPROVER_assert(buf == g_buf && __CPROVER_w_ok(buf, buflen), "inline_dotify on the name buffer");
	__CPROVER_assert(e + d < buflen, "inline_dotify precondition: the dotted text and its terminator fit");
	__CPROVER_assert(buf[e] == 0, "inline_dotify precondition: string of the ghost length");
	char last = e > 0 ? buf[e - 1] : 0;
	if (g_j < e) cj = buf[g_j];
	__CPROVER_havoc_slice(buf, e + d + 1);
	buf[e + d] = 0;
	if (g_j < e) buf[g_j + g_j / 57] = cj;                                  /* character j stands at j + j/57 */
	if (g_d < d) buf[57 + 58 * g_d] = '.';
	/* the same two clauses instantiated at the last position of the dotted text */
	if (e > 0) { if (e % 57 == 0) buf[57 + 58 * (d - 1)] = '.'; else buf[(e - 1) + (e - 1) / 57] = last; }
	/* the other positions hold the other characters (no NUL) - kept at the ghost string position */
	if (g_s < e + d) __CPROVER_assume(buf[g_s] != 0);
	g_buf_len = e + d;
	g_dot_calls++;
	return (int)(e + d);
}
#endif

void h_build_hostname(void)
{
	size_t buflen = nondet_size_t(), datalen = nondet_size_t(), tl = nondet_size_t();
	int maxlen = nondet_int();
	/* the property's domain: limit L in 100..255, domain of 3..128 characters leaving at least 24; callers' buffers */
	__CPROVER_assume(maxlen >= 100 && maxlen <= 255 && tl >= 3 && tl <= 128 && tl + 24 <= (size_t)maxlen);
	__CPROVER_assume(buflen >= 300 && buflen <= 4096 && datalen >= 1 && datalen <= 65536);
	char *buf = malloc(buflen);
	char *top = malloc(tl + 1);
	unsigned char *data = malloc(datalen);
	__CPROVER_assume(top[tl] == 0 && (g_s >= tl || (top[g_s] != 0)));
	__CPROVER_assume(top[0] != '.' && top[tl - 1] != '.');
	g_buf = buf; g_top = top; g_top_len = tl; g_data = data; g_datalen = datalen; g_enc_calls = 0;
	struct encoder enc = { "codec", stub_encode, stub_decode, 0, 0, 5, 8 };
	int r = build_hostname(buf, buflen, (const char *)data, datalen, top, &enc, maxlen);
	size_t e = g_enc_ret, d = e / 57, dotted = e + d;
	size_t sep = (e > 0 && e % 57 == 0) ? 0 : 1;       /* a dot is added unless the dotted text already ends in one */
	__CPROVER_assert(g_enc_calls == 1 && (size_t)r == g_enc_k, "build_hostname reports the number of payload bytes the encoder consumed");
	__CPROVER_assert(r >= 1, "the name carries a non-empty prefix of the payload");
	__CPROVER_assert(g_buf_len == dotted + sep + tl && buf[g_buf_len] == 0, "name = dotted text, one dot, the domain, NUL");
	__CPROVER_assert(5 + g_buf_len <= (size_t)maxlen && 5 + g_buf_len + 2 <= 255, "with the longest (5 character) header the name stays within the configured limit and within 253 characters (255 bytes on the wire)");
	__CPROVER_assert(g_j >= e || buf[g_j + g_j / 57] == g_encj, "the data part, dots removed, is exactly the encoder's output");
	__CPROVER_assert(g_d >= d || buf[57 + 58 * g_d] == '.', "data labels are 57 characters long (so 5 + 57 <= 63 with the header in front)");
	__CPROVER_assert(buf[dotted + sep - 1] == '.', "a dot separates the data part from the domain");
	__CPROVER_assert(g_cpy_at == dotted + sep, "the domain is appended right behind that dot");
	__CPROVER_assert(g_s < g_cpy_at || g_s >= g_cpy_at + tl || buf[g_s] == top[g_s - g_cpy_at], "the name ends in the tunnel domain");
	__CPROVER_assert(e - 57 * d >= 1 || sep == 0, "no empty label: the last data label is non-empty");
	VERIF_REACH();
}

/* ---- unpack_data: undotify then decode (server-side extraction) ---------------------------------- */
static int g_dec_calls; static size_t g_dec_srclen, g_dec_cap; static const char *g_dec_src; static int g_dec_ret;
static int stub_decode2(void *dst, size_t *dstlen, const char *src, size_t srclen)
{
	int r = nondet_int();
	__CPROVER_assert(__CPROVER_w_ok(dst, *dstlen), "decoder precondition: output writable for *dstlen bytes");
	__CPROVER_assert(srclen == 0 || __CPROVER_r_ok(src, srclen), "decoder precondition: input readable");
	__CPROVER_assume(r >= 0 && (size_t)r <= *dstlen);
	g_dec_calls++; g_dec_srclen = srclen; g_dec_src = src; g_dec_cap = *dstlen; g_dec_ret = r;
	return r;
}
void h_unpack_data(void)
{
	size_t buflen = nondet_size_t(), datalen = nondet_size_t();
	__CPROVER_assume(buflen <= 65536 && datalen <= 65536);
	char *out = malloc(buflen), *data = malloc(datalen);
	_Bool eats = nondet_bool();
	struct encoder enc = { "codec", stub_encode, stub_decode2, 0, eats, 5, 8 };
	g_dec_calls = 0;
	int r = unpack_data(out, buflen, data, datalen, &enc);
	__CPROVER_assert(g_dec_calls == 1 && g_dec_src == data && g_dec_cap == buflen && r == g_dec_ret, "unpack_data decodes the (undotted) text in place into the caller's buffer and returns the decoder's count");
	__CPROVER_assert(g_dec_srclen <= datalen && (!eats || g_dec_srclen == datalen), "the decoder sees at most the data part; all of it when the codec handles dots itself");
	VERIF_REACH();
}
#endif
