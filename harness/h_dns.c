/* src/dns.c under contract: dns_decode on a datagram object of EXACTLY packetlen bytes
 * (C12), arbitrary content (C05 query direction, C06 answer direction). */
#include <string.h>
#include <strings.h>
#include <stdlib.h>
#include <stdint.h>
#include <err.h>
#include <arpa/nameser.h>
#include "common.h"
#include "lib/verif.h"
#if defined(VERIF_CBMC) && !defined(VERIF_WITNESS)
#define VERIF_PROOF 1
#endif
#ifdef VERIF_PROOF
#define VERIF_KEEP_MEMSET 1      /* dns_decode relies on memset(names, 0): keep CBMC's exact memset */
#include "models/libc.h"
#include "contracts/read.h"
#endif
#include <read.c>
#ifdef VERIF_PROOF
/* callees of dns_decode that have their own proof are replaced by stubs carrying their contract */
static int verif_readname_stub(char *packet, int packetlen, char **src, char *dst, size_t length)
{
	__CPROVER_assert(RN_PRE(packet, packetlen, *src, length, 10), "readname precondition at call site (cursor inside the datagram)");
	__CPROVER_assert(__CPROVER_w_ok(dst, length), "readname precondition at call site: dst writable for length");
	long o0 = PKT_OFF(*src);
	size_t adv = nondet_size_t();
	__CPROVER_assume(adv <= (size_t)((long)packetlen + 1 - o0));
	*src = *src + adv;
	__CPROVER_havoc_slice(dst, length);
	int r = nondet_int();
	__CPROVER_assume(RN_POST(r, packet, packetlen, *src, o0, length));
	return r;
}
static int verif_readtxtbin_stub(char *packet, char **src, size_t srcremain, char *dst, size_t dstremain)
{
	__CPROVER_assert(srcremain == 0 || __CPROVER_r_ok(*src, srcremain), "readtxtbin precondition at call site: srcremain bytes present at the cursor");
	__CPROVER_assert(dstremain == 0 || __CPROVER_w_ok(dst, dstremain), "readtxtbin precondition at call site: dst writable");
	size_t adv = nondet_size_t();
	__CPROVER_assume(adv <= srcremain);
	*src = *src + adv;
	if (dstremain)
		__CPROVER_havoc_slice(dst, dstremain);
	int r = nondet_int();
	__CPROVER_assume(r >= 0 && (size_t)r <= dstremain);
	return r;
}
/* case split on the question type (the first 16-bit field read): the wrapper runs the REAL
 * readshort and then restricts the proof to one class of values; the classes partition 0..65535 */
static int verif_nshort;
#ifdef H_TYPE
#define H_CASE_OK(t) ((t) == H_TYPE)
#elif !defined(H_CASE)
#define H_CASE_OK(t) 1
#elif H_CASE == 0
#define H_CASE_OK(t) ((t) == T_NULL || (t) == T_PRIVATE)
#elif H_CASE == 1
#define H_CASE_OK(t) ((t) == T_A || (t) == T_CNAME)
#elif H_CASE == 2
#define H_CASE_OK(t) ((t) == T_MX || (t) == T_SRV)
#elif H_CASE == 3
#define H_CASE_OK(t) ((t) == T_TXT)
#else
#define H_CASE_OK(t) (!((t) == T_NULL || (t) == T_PRIVATE || (t) == T_A || (t) == T_CNAME || (t) == T_MX || (t) == T_SRV || (t) == T_TXT))
#endif
static int verif_readshort_case(char *packet, char **src, unsigned short *dst)
{
	int r = readshort(packet, src, dst);
	if (++verif_nshort == 1) {
		__CPROVER_assume(H_CASE_OK(*dst));
#ifdef H_TYPE   /* singleton class: make the value a literal so that symex prunes the other branches */
		*dst = H_TYPE;
#endif
	}
	return r;
}
#define readname verif_readname_stub
#define readtxtbin verif_readtxtbin_stub
#define readshort verif_readshort_case
void warnx(const char *fmt, ...) { }
#endif
#include <dns.c>
#ifdef VERIF_PROOF
#undef readname
#undef readtxtbin
#undef readshort
size_t g_p;
_Bool nondet_bool(void);

#ifndef H_QR
#define H_QR (nondet_bool() ? QR_ANSWER : QR_QUERY)
#endif
void h_dns_decode(void)
{
	size_t packetlen = nondet_size_t(), buflen = nondet_size_t();
	__CPROVER_assume(packetlen <= 65536);
	char *packet = malloc(packetlen);                    /* EXACTLY the datagram */
	qr_t qr = H_QR;
	struct query *q = malloc(sizeof(struct query));   /* every caller passes a query object */
	verif_nshort = 0;
	g_nul_hint = 255;                                  /* names are kept NUL-terminated at [255] */
	char *buf = NULL;
	if (nondet_bool()) {
		__CPROVER_assume(buflen >= 2 && buflen <= 65536);
		buf = malloc(buflen);
	} else {
		buflen = 0;
	}
	char old = 0;
	if (g_p < packetlen)
		old = packet[g_p];
	int r = dns_decode(buf, buflen, q, qr, packet, packetlen);
	__CPROVER_assert(r >= -1, "dns_decode result >= -1");
	__CPROVER_assert(qr != QR_ANSWER || r <= 0 || (buf != NULL && (size_t)r <= buflen), "dns_decode: answer payload length within the caller's buffer");
	__CPROVER_assert(qr != QR_QUERY || r <= 255, "dns_decode: query name length <= 255");
	__CPROVER_assert(qr != QR_QUERY || r <= 0 || q->name[255] == 0, "dns_decode: query name NUL-terminated inside q->name");
	__CPROVER_assert(r < 0 || packetlen < 12 || q->id2 == 0, "dns_decode clears the duplicate id of the query it fills in");
	__CPROVER_assert(!(g_p < packetlen) || old == packet[g_p], "dns_decode does not write the datagram");
	VERIF_REACH();
}

void h_dns_get_id(void)
{
	size_t packetlen = nondet_size_t();
	__CPROVER_assume(packetlen <= 65536);
	char *packet = malloc(packetlen);
	unsigned short id = dns_get_id(packet, packetlen);
	__CPROVER_assert(packetlen >= 12 || id == 0, "dns_get_id: short packet gives 0");
	__CPROVER_assert(packetlen < 12 || id == (unsigned short)((((unsigned char *)packet)[0] << 8) | ((unsigned char *)packet)[1]), "dns_get_id: big-endian first two bytes");
	VERIF_REACH();
}
#endif
