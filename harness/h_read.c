/* src/read.c under contract.  Pointer-walking loops are verified in the harness style
 * (assume PRE / assert POST, loop contracts applied without the dynamic-frame library),
 * because a store through a loop-havoced pointer under --dfcc updates every object of the
 * instrumented program (DESIGN 3, P25). */
#include <string.h>
#include <stdlib.h>
#include <stdint.h>
#include "lib/verif.h"
#if defined(VERIF_CBMC) && !defined(VERIF_WITNESS)
#define VERIF_PROOF 1
#endif
#ifdef VERIF_PROOF
#include "models/libc.h"
#include "contracts/read.h"
/* Split the recursive function without touching its text: the definition keeps the real body
 * under the name readname_loop_top; the two call sites (the recursive call and readname's)
 * go to readname_loop_nested, a stub that carries the same contract.  Drops: nothing but
 * the identity of caller and callee names.  If the first parameter/argument is ever spelled
 * differently this stops compiling (=> undecided, never a verdict). */
static int readname_loop_nested(char *packet, int packetlen, char **src, char *dst, size_t length, size_t loop);
#define RLSEL_char readname_loop_top(char
#define RLSEL_packet readname_loop_nested(packet
#define readname_loop(a, b, c, d, e, f) RLSEL_##a, b, c, d, e, f)
#endif
#include <read.c>
#ifdef VERIF_PROOF
#undef readname_loop
size_t nondet_size_t(void);
int nondet_int(void);
size_t g_p;  /* ghost: arbitrary datagram byte */

static int readname_loop_nested(char *packet, int packetlen, char **src, char *dst, size_t length, size_t loop)
{
	__CPROVER_assert(RN_PRE(packet, packetlen, *src, length, loop), "readname_loop precondition at call site");
	__CPROVER_assert(__CPROVER_w_ok(dst, length), "readname_loop precondition at call site: dst writable for length");
	long o0 = PKT_OFF(*src);
	size_t adv = nondet_size_t();
	__CPROVER_assume(adv <= (size_t)((long)packetlen + 1 - o0));
	*src = *src + adv;
	__CPROVER_havoc_slice(dst, length);
	int r = nondet_int();
	__CPROVER_assume(RN_POST(r, packet, packetlen, *src, o0, length));
	return r;
}

/* proof of readname_loop against RN_PRE/RN_POST + footprint, for every datagram size */
void h_readname_loop(void)
{
	int packetlen = nondet_int();
	size_t length = nondet_size_t(), loop = nondet_size_t(), off = nondet_size_t();
	__CPROVER_assume(packetlen >= 0 && packetlen <= 65536 && off <= (size_t)packetlen);
	char *packet = malloc(packetlen);            /* EXACTLY the datagram */
	__CPROVER_assume(length >= 3 && length <= 256);
	char *dst = malloc(length);
	char *src = packet + off;
	__CPROVER_assume(RN_PRE(packet, packetlen, src, length, loop));
	char old = 0;
	if (g_p < (size_t)packetlen)
		old = packet[g_p];
	int r = readname_loop_top(packet, packetlen, &src, dst, length, loop);
	__CPROVER_assert(RN_POST(r, packet, packetlen, src, off, length), "readname_loop postcondition");
	__CPROVER_assert(!(g_p < (size_t)packetlen) || old == packet[g_p], "readname_loop does not write the datagram");
	VERIF_REACH();
}

void h_readname(void)
{
	int packetlen = nondet_int();
	size_t length = nondet_size_t(), off = nondet_size_t();
	__CPROVER_assume(packetlen >= 0 && packetlen <= 65536 && off <= (size_t)packetlen);
	char *packet = malloc(packetlen);
	__CPROVER_assume(length >= 3 && length <= 256);
	char *dst = malloc(length);
	char *src = packet + off;
	int r = readname(packet, packetlen, &src, dst, length);
	__CPROVER_assert(RN_POST(r, packet, packetlen, src, off, length), "readname postcondition");
	VERIF_REACH();
}
#endif

#if defined(VERIF_WITNESS) || defined(VERIF_REPLAY)
#include "lib/wit.h"
#ifndef WN
#define WN 6
#endif
/* a datagram of exactly packetlen bytes on the heap: ASan (native) / CBMC's pointer checks
 * (witness search) see any read outside it */
void w_readname(void)
{
	WIT_SCALAR(int, packetlen);
	WIT_SCALAR(int, off);
#ifdef WLEN   /* the witness search enumerates concrete datagram lengths (constant-size objects) */
	WIT_ASSUME(packetlen == WLEN);
#endif
	WIT_ASSUME(packetlen >= 0 && packetlen <= WN && off >= 0 && off <= packetlen);
	WIT_BYTES(packet, WN, packetlen);
	WIT_OUT(dst, 256);
	char *src = (char *)packet + off;
	/* recursion depth 2 (within the contract's domain loop <= 10) keeps the search small */
	int r = readname_loop((char *)packet, packetlen, &src, (char *)dst, 256, 2);
	WIT_CHECK(r >= 0 && r <= 256, "readname result range");
	WIT_CHECK(src >= (char *)packet + off && src <= (char *)packet + packetlen + 1, "readname cursor range");
}
#ifdef VERIF_REPLAY
WIT_MAIN(WIT_ENTRY)
#endif
#endif
