/* src/read.c under contract.  Pointer-walking loops are verified in the harness style
 * (assume PRE / assert POST, loop contracts applied without the dynamic-frame library),
 * because a store through a loop-havoced pointer under --dfcc updates every object of the
 * instrumented program (DESIGN 3, P25). */
#include <string.h>
#include <stdlib.h>
#include <stdint.h>
#include "lib/verif.h"
#if defined(VERIF_CBMC) && !defined(VERIF_WITNESS)
#define VERIF_PROOF 1
#endif
#ifdef VERIF_PROOF
#include "models/libc.h"
#include "contracts/read.h"
/* Split the recursive function without touching its text: the definition keeps the real body
 * under the name readname_loop_top; the two call sites (the recursive call and readname's)
 * go to readname_loop_nested, a stub that carries the same contract.  Drops: nothing but
 * the identity of caller and callee names.  If the first parameter/argument is ever spelled
 * differently this stops compiling (=> undecided, never a verdict). */
static int readname_loop_nested(char *packet, int packetlen, char **src, char *dst, size_t length, size_t loop);
#define RLSEL_char readname_loop_top(char
#define RLSEL_packet readname_loop_nested(packet
#define readname_loop(a, b, c, d, e, f) RLSEL_##a, b, c, d, e, f)
#endif
#include <read.c>
#ifdef VERIF_PROOF
#undef readname_loop
size_t nondet_size_t(void);
int nondet_int(void);
size_t g_p;  /* ghost: arbitrary datagram byte */

static int readname_loop_nested(char *packet, int packetlen, char **src, char *dst, size_t length, size_t loop)
{
	__CPROVER_assert(RN_PRE(packet, packetlen, *src, length, loop), "readname_loop precondition at call site");
	__CPROVER_assert(__CPROVER_w_ok(dst, length), "readname_loop precondition at call site: dst writable for length");
	long o0 = PKT_OFF(*src);
	size_t adv = nondet_size_t();
	__CPROVER_assume(adv <= (size_t)((long)packetlen + 1 - o0));
	*src = *src + adv;
	__CPROVER_havoc_slice(dst, length);
	int r = nondet_int();
	__CPROVER_assume(RN_POST(r, packet, packetlen, *src, o0, length));
	return r;
}

/* proof of readname_loop against RN_PRE/RN_POST + footprint, for every datagram size */
void h_readname_loop(void)
{
	int packetlen = nondet_int();
	size_t length = nondet_size_t(), loop = nondet_size_t(), off = nondet_size_t();
	__CPROVER_assume(packetlen >= 0 && packetlen <= 65536 && off <= (size_t)packetlen);
	char *packet = malloc(packetlen);            /* EXACTLY the datagram */
	__CPROVER_assume(length >= 3 && length <= 256);
	char *dst = malloc(length);
	char *src = packet + off;
	__CPROVER_assume(RN_PRE(packet, packetlen, src, length, loop));
	char old = 0;
	if (g_p < (size_t)packetlen)
		old = packet[g_p];
	int r = readname_loop_top(packet, packetlen, &src, dst, length, loop);
	__CPROVER_assert(RN_POST(r, packet, packetlen, src, off, length), "readname_loop postcondition");
	__CPROVER_assert(!(g_p < (size_t)packetlen) || old == packet[g_p], "readname_loop does not write the datagram");
	VERIF_REACH();
}

void h_readshort(void) { char *packet; char **src; unsigned short *dst; readshort(packet, src, dst); VERIF_REACH(); }
void h_readlong(void) { char *packet; char **src; uint32_t *dst; readlong(packet, src, dst); VERIF_REACH(); }
void h_readdata(void) { char *packet; char **src; char *dst; size_t len; readdata(packet, src, dst, len); VERIF_REACH(); }
void h_putbyte(void) { char **dst; unsigned char v; putbyte(dst, v); VERIF_REACH(); }
void h_putshort(void) { char **dst; unsigned short v; putshort(dst, v); VERIF_REACH(); }
void h_putlong(void) { char **dst; uint32_t v; putlong(dst, v); VERIF_REACH(); }
void h_putdata(void)
{
	size_t len = nondet_size_t();
	__CPROVER_assume(len <= 65536);
	char *out = malloc(len), *data = malloc(len), *p = out;
	char keep = 0;
	if (g_m < len) keep = data[g_m];
	int r = putdata(&p, data, len);
	__CPROVER_assert(p == out + len && (size_t)r == len, "putdata advances the cursor by len");
	__CPROVER_assert(!(g_m < len) || out[g_m] == keep, "putdata copies the bytes");
	VERIF_REACH();
}

/* readtxtbin: record data of exactly srcremain bytes (exact-size object), output of dstremain */
void h_readtxtbin(void)
{
	size_t srcremain = nondet_size_t(), dstremain = nondet_size_t();
	__CPROVER_assume(srcremain <= 65535 && dstremain <= 4096);
	char *rec = malloc(srcremain), *dst = malloc(dstremain), *src = rec;
	char old = 0;
	if (g_p < srcremain)
		old = rec[g_p];
	int r = readtxtbin(rec, &src, srcremain, dst, dstremain);
	__CPROVER_assert(r >= 0 && (size_t)r <= dstremain, "readtxtbin returns at most the output space");
	__CPROVER_assert(__CPROVER_same_object(src, rec) && src >= rec && src <= rec + srcremain, "readtxtbin cursor stays inside the record data");
	__CPROVER_assert(!(g_p < srcremain) || old == rec[g_p], "readtxtbin does not write the datagram");
	VERIF_REACH();
}

void h_puttxtbin(void)
{
	size_t bufremain = nondet_size_t(), fromremain = nondet_size_t();
	__CPROVER_assume(bufremain <= 65536 && fromremain <= 65536);
	char *out = malloc(bufremain), *from = malloc(fromremain), *p = out;
	int r = puttxtbin(&p, bufremain, from, fromremain);
	__CPROVER_assert(r >= -1 && r <= (int)bufremain, "puttxtbin returns -1 or at most the space");
	__CPROVER_assert(__CPROVER_same_object(p, out) && p >= out && p <= out + bufremain, "puttxtbin cursor stays inside the buffer");
	__CPROVER_assert(r < 0 || (p == out + r && (size_t)r == fromremain + (fromremain + 251) / 252), "puttxtbin: total = data + one length byte per 252-byte string");
	__CPROVER_assert((r < 0) == (fromremain + (fromremain + 251) / 252 > bufremain), "puttxtbin fails exactly when the tiling does not fit");
	__CPROVER_assert(r >= 0 || ((size_t)(p - out) % 253 == 0 && (size_t)(p - out) / 253 <= fromremain / 252), "puttxtbin on failure has written only whole 252-byte strings");
	VERIF_REACH();
}

void h_readname(void)
{
	int packetlen = nondet_int();
	size_t length = nondet_size_t(), off = nondet_size_t();
	__CPROVER_assume(packetlen >= 0 && packetlen <= 65536 && off <= (size_t)packetlen);
	char *packet = malloc(packetlen);
	__CPROVER_assume(length >= 3 && length <= 256);
	char *dst = malloc(length);
	char *src = packet + off;
	int r = readname(packet, packetlen, &src, dst, length);
	__CPROVER_assert(RN_POST(r, packet, packetlen, src, off, length), "readname postcondition");
	VERIF_REACH();
}
#endif

#if defined(VERIF_WITNESS) || defined(VERIF_REPLAY)
#include "lib/wit.h"
#ifndef WN
#define WN 6
#endif
/* a datagram of exactly packetlen bytes on the heap: ASan (native) / CBMC's pointer checks
 * (witness search) see any read outside it */
void w_readname(void)
{
	WIT_SCALAR(int, packetlen);
	WIT_SCALAR(int, off);
#ifdef WLEN   /* the witness search enumerates concrete datagram lengths (constant-size objects) */
	WIT_ASSUME(packetlen == WLEN);
#endif
	WIT_ASSUME(packetlen >= 0 && packetlen <= WN && off >= 0 && off <= packetlen);
	WIT_BYTES(packet, WN, packetlen);
	WIT_OUT(dst, 256);
	char *src = (char *)packet + off;
	/* recursion depth 2 (within the contract's domain loop <= 10) keeps the search small */
	int r = readname_loop((char *)packet, packetlen, &src, (char *)dst, 256, 2);
	WIT_CHECK(r >= 0 && r <= 256, "readname result range");
	WIT_CHECK(src >= (char *)packet + off && src <= (char *)packet + packetlen + 1, "readname cursor range");
}
#ifdef VERIF_REPLAY
WIT_MAIN(WIT_ENTRY)
#endif
#endif
