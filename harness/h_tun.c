/* src/tun.c under contract (C13: only validated numbers reach a shell; C06: arithmetic on
 * peer-supplied integers).
 *
 * tun_setip / tun_setmtu receive what the client's handshake_login parsed out of the login reply
 * with sscanf("%64[^-]-%64[^-]-%d-%d"): two arbitrary NUL-terminated strings of at most 64 bytes
 * (no '-') and two arbitrary ints.  The contract is stated at the system() boundary: every
 * peer-derived %s argument of the command line is a syntactically valid dotted quad, every
 * peer-derived number is inside its accepted range, the netmask text comes from inet_ntoa.
 *
 * No assumption is made about inet_addr(): it may accept or reject ANY string (glibc's accepts
 * "1.2.3.4 ;anything"), so the proof cannot rest on it. */
#include <string.h>
#include <stdlib.h>
#include <stdio.h>
#include <arpa/inet.h>
#include "lib/verif.h"
#ifdef VERIF_CBMC
int nondet_int(void);
unsigned nondet_unsigned(void);
_Bool nondet_bool(void);
char nondet_char(void);

/* spec, from the statement: digit{1,3} ( '.' digit{1,3} ){3}, each part at most 255, nothing else */
static _Bool spec_dotted_quad(const char *s)
{
	int parts = 0, i = 0, k;
	for (k = 0; k < 4; k++) {
		int digits = 0, val = 0;
		while (digits < 4 && s[i] >= '0' && s[i] <= '9') { val = val * 10 + (s[i] - '0'); digits++; i++; }
		if (digits < 1 || digits > 3 || val > 255) return 0;
		parts++;
		if (k < 3) { if (s[i] != '.') return 0; i++; }
	}
	return s[i] == 0;
}

enum { CMD_NONE, CMD_SETIP, CMD_SETMTU, CMD_OTHER };
static int g_cmd_kind, g_system_calls;
static char *g_cmd_buf;
static const char *g_arg_if, *g_arg_ip, *g_arg_ip2, *g_arg_mask;
static unsigned g_arg_mtu;
static char g_ntoa_buf[16];
static int g_ntoa_calls;

#define FMT_SETIP "PATH=/sbin:/bin " "ifconfig %s %s %s netmask %s"
#define FMT_SETMTU "PATH=/sbin:/bin " "ifconfig %s mtu %u"
#define FMT_IS(fmt, lit) fmt_is(fmt, lit, sizeof(lit))
static _Bool fmt_is(const char *fmt, const char *lit, size_t n)
{
	size_t k;
	for (k = 0; k < 64; k++)
		if (k < n && fmt[k] != lit[k])
			return 0;
	return 1;
}
/* snprintf is intercepted per arity (no varargs in the model) */
static int tun_snprintf4(char *buf, size_t n, const char *fmt, const char *a, const char *b, const char *c, const char *d)
{
	__CPROVER_assert(__CPROVER_w_ok(buf, n), "snprintf destination writable");
	g_cmd_kind = FMT_IS(fmt, FMT_SETIP) ? CMD_SETIP : CMD_OTHER;
	g_arg_if = a; g_arg_ip = b; g_arg_ip2 = c; g_arg_mask = d;
	g_cmd_buf = buf;
	return nondet_int();
}
static int tun_snprintf2(char *buf, size_t n, const char *fmt, const char *a, unsigned b)
{
	__CPROVER_assert(__CPROVER_w_ok(buf, n), "snprintf destination writable");
	g_cmd_kind = FMT_IS(fmt, FMT_SETMTU) ? CMD_SETMTU : CMD_OTHER;
	g_arg_if = a; g_arg_mtu = b;
	g_cmd_buf = buf;
	return nondet_int();
}
static int tun_snprintf1(char *buf, size_t n, const char *fmt, int a)
{
	__CPROVER_assert(__CPROVER_w_ok(buf, n), "snprintf destination writable");
	g_cmd_kind = CMD_OTHER; g_cmd_buf = buf;
	return nondet_int();
}
#define SNP_SEL(_1, _2, _3, _4, NAME, ...) NAME
static int tun_fprintf(FILE *f, const char *fmt, ...) { return 0; }
static void tun_warn(const char *fmt, ...) { }
static char *tun_inet_ntoa(struct in_addr a) { g_ntoa_calls++; return g_ntoa_buf; }
static in_addr_t tun_inet_addr(const char *s) { return nondet_unsigned(); }      /* no assumption at all */
static char if_name[250];
static int tun_system(const char *cmd)
{
	g_system_calls++;
	__CPROVER_assert(cmd == g_cmd_buf && (g_cmd_kind == CMD_SETIP || g_cmd_kind == CMD_SETMTU), "system() runs one of the two known command lines, as just formatted");
	if (g_cmd_kind == CMD_SETIP) {
		__CPROVER_assert(g_arg_if == if_name, "interface name is the local one");
		__CPROVER_assert(spec_dotted_quad(g_arg_ip), "first address in the ifconfig command is a syntactically valid dotted quad");
		__CPROVER_assert(spec_dotted_quad(g_arg_ip2), "second address in the ifconfig command is a syntactically valid dotted quad");
		__CPROVER_assert(g_arg_mask == g_ntoa_buf && g_ntoa_calls >= 1, "netmask text comes from inet_ntoa");
	}
	if (g_cmd_kind == CMD_SETMTU) {
		__CPROVER_assert(g_arg_if == if_name, "interface name is the local one");
		__CPROVER_assert(g_arg_mtu > 200 && g_arg_mtu <= 1500, "mtu in the command is a decimal within 201..1500");
	}
	g_cmd_kind = CMD_NONE;
	return nondet_int();
}
#define snprintf(buf, n, fmt, ...) SNP_SEL(__VA_ARGS__, tun_snprintf4, tun_snprintf3_none, tun_snprintf2, tun_snprintf1)(buf, n, fmt, __VA_ARGS__)
#define fprintf tun_fprintf
#define warn tun_warn
#define inet_ntoa tun_inet_ntoa
#define inet_addr tun_inet_addr
#define system tun_system
#endif
#include <tun.c>
#ifdef VERIF_CBMC
#undef snprintf
#undef system

static void any_string65(char *s)
{
	int i;
	for (i = 0; i < 65; i++) s[i] = nondet_char();
	s[64] = 0;                         /* handshake_login terminates both fields at [64] */
}

void h_tun_setip(void)
{
	char ip[65], other[65];
	any_string65(ip); any_string65(other);
	int netbits = nondet_int();
#ifdef H_NETBITS_RANGE
	__CPROVER_assume(netbits >= 0 && netbits <= 32);
#endif
	g_system_calls = 0; g_cmd_kind = CMD_NONE; g_ntoa_calls = 0;
	int r = tun_setip(ip, other, netbits);
	__CPROVER_assert(g_system_calls <= 1, "at most one command");
	__CPROVER_assert(!spec_dotted_quad(ip) || 1, "(validity is asserted at the system() boundary)");
	VERIF_REACH();
}

void h_tun_setmtu(void)
{
	unsigned mtu = nondet_unsigned();
	g_system_calls = 0; g_cmd_kind = CMD_NONE;
	int r = tun_setmtu(mtu);
	__CPROVER_assert(g_system_calls <= 1, "at most one command");
	__CPROVER_assert(g_system_calls == 1 || r == 1, "an out-of-range mtu is refused without running anything");
	VERIF_REACH();
}
#endif
