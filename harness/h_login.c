/* C19: login_calculate(pass, seed) == MD5( pass[0..32) XOR eight big-endian copies of seed )
 * for ALL 2^256 password blocks and ALL 2^32 seeds, against an MD5 written from RFC 1321
 * (spec/md5.h).  real login.c + real md5.c in one TU.  All loop bounds are literals
 * (8, 16, 64), so the unrolling is exact. */
#include <string.h>
#include <stdlib.h>
#include "lib/verif.h"
#include "spec/md5.h"
#include <md5.c>
#include <login.c>
#if defined(VERIF_CBMC) && !defined(VERIF_WITNESS)
int nondet_int(void);
void h_login_value(void)
{
	unsigned char pass[32], x[32], want[16];
	char got[16];
	int seed = nondet_int(), i;
	for (i = 0; i < 32; i++) {
		unsigned char c;
		pass[i] = c;
	}
	/* the documented construction: password XOR (seed as 4 big-endian bytes) repeated 8 times */
	for (i = 0; i < 32; i++)
		x[i] = pass[i] ^ (unsigned char)(((uint32_t)seed) >> (8 * (3 - i % 4)));
	spec_md5_1block(x, 32, want);
	login_calculate(got, 16, (const char *)pass, seed);
	for (i = 0; i < 16; i++)
		__CPROVER_assert((unsigned char)got[i] == want[i], "login_calculate byte == RFC-1321 MD5 of password XOR big-endian challenge");
	VERIF_REACH();
}

/* footprint: reads pass[0..32) only, writes buf[0..16) only, nothing when buflen < 16 */
void h_login_footprint(void)
{
	int buflen = nondet_int(), seed = nondet_int();
	__CPROVER_assume(buflen >= 0 && buflen <= 64);
	char *pass = malloc(32);            /* EXACTLY 32 bytes: any further read fails */
	char *buf = malloc(buflen);         /* EXACTLY buflen bytes */
	size_t g = (size_t)nondet_int();
	char old = 0;
	if (g < (size_t)buflen) old = buf[g];
	login_calculate(buf, buflen, pass, seed);
	__CPROVER_assert(!(g < (size_t)buflen && (buflen < 16 || g >= 16)) || buf[g] == old, "login_calculate writes only buf[0..16), and nothing when buflen < 16");
	VERIF_REACH();
}
#endif

#if defined(VERIF_WITNESS) || defined(VERIF_REPLAY)
#include "lib/wit.h"
void w_login(void)
{
	WIT_SCALAR(int, seed);
	WIT_BYTES(pass, 32, 32);
	unsigned char x[32], want[16];
	char got[16];
	int i;
	for (i = 0; i < 32; i++)
		x[i] = pass[i] ^ (unsigned char)(((uint32_t)seed) >> (8 * (3 - i % 4)));
	spec_md5_1block(x, 32, want);
	login_calculate(got, 16, (const char *)pass, seed);
	for (i = 0; i < 16; i++)
		WIT_CHECK((unsigned char)got[i] == want[i], "login response byte differs from MD5(password XOR big-endian challenge)");
}
#ifdef VERIF_REPLAY
WIT_MAIN(WIT_ENTRY)
#endif
#endif
