/* src/iodined.c: the answer writer (C09 stage 1/2: answer construction per record type and downstream codec; C10: which
 * builder is fed with what; C05: buffer arithmetic) - write_dns_nameenc and write_dns, real bodies.
 *
 * Harness style.  Callees with their own proof are stubs carrying that contract:
 *   - the four encoders (C07 groups): text of exactly ENC_LEN(k) alphabet characters (no NUL, no dot) + NUL, k = bytes
 *     consumed reported through *buflen, k maximal for the capacity, nothing written behind the NUL;
 *   - inline_dotify (group enc_dotify): a dot after every 57 characters, length e + e/57;
 *   - dns_encode (groups dnsenc_*): recorder.
 * Strings are tracked by a ghost (object, length) pair: strlen() of the name being built is the tracked length. */
#define VERIF_REACH() __CPROVER_assert(0, "VERIF_REACH: code after the call is reachable (must fail)")
int nondet_int(void);
unsigned long nondet_size_t(void);
_Bool nondet_bool(void);
#define WDSEL_int verif_real_write_dns(int
#define WDSEL_dns_fd verif_stub_write_dns(dns_fd
#define WDSEL_fd verif_stub_write_dns(fd
#define write_dns(a, b, c, d, e) WDSEL_##a, b, c, d, e)
#define main iodined_main
#define sendto verif_sendto
#define memset verif_memset
#define memcpy verif_memcpy
#define strlen verif_strlen
#define fprintf verif_fprintf
struct query;
static void verif_stub_write_dns(int fd, struct query *q, const char *data, int datalen, char downenc);
static int verif_uid(int x) { return x; }
#include VERIF_SHRUNK_TU
#include VERIF_SHRUNK_MACROS
#undef write_dns
#undef sendto
#undef memset
#undef memcpy
#undef strlen
#undef fprintf
#define write_dns verif_real_write_dns
static void verif_stub_write_dns(int fd, struct query *q, const char *data, int datalen, char downenc) { }
struct tun_user users[1];
int verif_fprintf(FILE *f, const char *fmt, ...) { return 0; }
char *format_addr(struct sockaddr_storage *a, int l) { static char b[8]; return b; }

/* ---- ghost string tracking --------------------------------------------------------------------------- */
static const char *g_str_base;       /* start of the name being built */
static size_t g_str_len;             /* its current length (position of its NUL) */
static size_t g_m;                   /* arbitrary ghost index */
void *verif_memset(void *s, int c, size_t n)
{
	/* the buffers cleared here are uninitialised locals (already arbitrary): bounds only */
	__CPROVER_assert(n == 0 || __CPROVER_w_ok(s, n), "memset: destination writable for n bytes");
	return s;
}
static const void *g_cpy_src, *g_cpy_dst; static size_t g_cpy_n; static int g_cpy_calls;
void *verif_memcpy(void *dst, const void *src, size_t n)
{
	__CPROVER_assert(n == 0 || (__CPROVER_r_ok(src, n) && __CPROVER_w_ok(dst, n)), "memcpy: source readable and destination writable for n bytes");
	g_cpy_calls++; g_cpy_src = src; g_cpy_dst = dst; g_cpy_n = n;
	return dst;
}
size_t verif_strlen(const char *s)
{
	/* the tracked length is the length after the last encoder / dotify step; the function under proof may have
	 * appended up to four characters by hand since (separating dot, two letters) */
	size_t j, off;
	__CPROVER_assert(g_str_base && __CPROVER_same_object(s, g_str_base) && s >= g_str_base && s <= g_str_base + g_str_len, "strlen is applied to the name being built");
	off = (size_t)(s - g_str_base);
	for (j = 0; j < 5; j++)
		if (g_str_base[g_str_len + j] == 0)
			return g_str_len + j - off;
	__CPROVER_assert(0, "strlen: the name being built is NUL-terminated within 4 characters of its tracked end");
	return 0;
}
/* ---- encoder contract (C07) ---------------------------------------------------------------------------- */
#define ENC_LEN(bits, k) ((8 * (k) + (bits) - 1) / (bits))
static int g_enc_calls, g_enc_codec; static char *g_enc_dst; static const void *g_enc_src; static size_t g_enc_cap, g_enc_srclen, g_enc_k, g_enc_r;
static int stub_enc(int codec, int bits, char *dst, size_t *dstlen, const void *src, size_t srclen)
{
	size_t cap = *dstlen, full = ENC_LEN(bits, srclen), k = nondet_size_t(), r;
	__CPROVER_assert(__CPROVER_w_ok(dst, (cap < full ? cap : full) + 1), "encoder output has room for the text it can produce plus the terminator");
	__CPROVER_assert(srclen == 0 || __CPROVER_r_ok(src, srclen), "encoder input readable for size bytes");
	__CPROVER_assume(k <= srclen);
	r = ENC_LEN(bits, k);
	__CPROVER_assume(r <= cap && (k == srclen || ENC_LEN(bits, k + 1) > cap));      /* maximal prefix that fits */
	g_enc_calls++; g_enc_codec = codec; g_enc_dst = dst; g_enc_src = src; g_enc_cap = cap; g_enc_srclen = srclen; g_enc_k = k; g_enc_r = r;
	dst[r] = 0;                            /* text itself: arbitrary alphabet characters (the buffer is arbitrary already) */
	*dstlen = k;
	/* the text extends the string that starts at g_str_base (one letter in front) */
	g_str_base = dst - 1; g_str_len = 1 + r;
	return (int)r;
}
static int enc32(char *d, size_t *l, const void *s, size_t n) { return stub_enc(32, 5, d, l, s, n); }
static int enc64(char *d, size_t *l, const void *s, size_t n) { return stub_enc(64, 6, d, l, s, n); }
static int enc64u(char *d, size_t *l, const void *s, size_t n) { return stub_enc(65, 6, d, l, s, n); }
static int enc128(char *d, size_t *l, const void *s, size_t n) { return stub_enc(128, 7, d, l, s, n); }
static int dec_any(void *d, size_t *l, const char *s, size_t n) { __CPROVER_assert(0, "decoder not expected here"); return 0; }
const struct encoder base32_ops = { "Base32", enc32, dec_any, 0, 0, 5, 8 }, base64_ops = { "Base64", enc64, dec_any, 0, 0, 3, 4 },
	base64u_ops = { "Base64u", enc64u, dec_any, 0, 0, 3, 4 }, base128_ops = { "Base128", enc128, dec_any, 0, 0, 7, 8 };
/* ---- inline_dotify contract (group enc_dotify) ------------------------------------------------------------ */
static int g_dot_calls;
int inline_dotify(char *buf, size_t buflen)
{
	size_t e = g_str_len, n = e + e / 57, m;
	__CPROVER_assert(buf == g_str_base, "inline_dotify is applied to the name being built (letter included)");
	__CPROVER_assert(n < buflen && __CPROVER_w_ok(buf, n + 1), "inline_dotify: the dotted string fits the buffer");
	g_dot_calls++;
	/* characters keep their order, a dot after every 57; the text has no dot of its own (alphabet lemmas) */
	for (m = 0; m < 5; m++)
		if (57 + 58 * m < n) buf[57 + 58 * m] = '.';
	if (n > 0 && (n - 1) % 58 != 57) __CPROVER_assume(buf[n - 1] != '.');
	buf[n] = 0;
	g_str_len = n;
	return (int)n;
}
/* ---- dns_encode recorder ------------------------------------------------------------------------------------ */
static int g_de_calls, g_de_ret, g_de_qr; static const void *g_de_q, *g_de_buf; static _Bool g_de_data_is_name, g_de_data_is_payload; static size_t g_de_datalen, g_de_buflen;
static const char *g_payload; static char g_de_first;
int dns_encode(char *buf, size_t buflen, struct query *q, qr_t qr, const char *data, size_t datalen)
{
	__CPROVER_assert(__CPROVER_w_ok(buf, buflen), "dns_encode: output writable for buflen bytes");
	__CPROVER_assert(datalen == 0 || __CPROVER_r_ok(data, datalen), "dns_encode: payload readable for datalen bytes");
	g_de_calls++; g_de_q = q; g_de_qr = qr; g_de_buf = buf; g_de_buflen = buflen; g_de_datalen = datalen;
	g_de_data_is_name = g_str_base && data == g_str_base; g_de_data_is_payload = data == g_payload;
	g_de_first = datalen ? data[0] : 0;
	__CPROVER_assume(g_de_ret >= -1 && (size_t)(g_de_ret < 0 ? 0 : g_de_ret) <= buflen);
	return g_de_ret;
}
static int g_sendto; static _Bool g_sent_ok;
static struct query g_q;
ssize_t verif_sendto(int fd, const void *buf, size_t len, int flags, const struct sockaddr *to, socklen_t tolen)
{
	g_sendto++;
	g_sent_ok = fd == 8 && buf == g_de_buf && len == (size_t)g_de_ret && to == (const struct sockaddr *)&g_q.from && tolen == g_q.fromlen;
	return (ssize_t)len;
}

#define LETTER_NAME(d) ((d) == 'S' ? 'i' : (d) == 'U' ? 'j' : (d) == 'V' ? 'k' : 'h')
#define CODEC_OF(d) ((d) == 'S' ? 64 : (d) == 'U' ? 65 : (d) == 'V' ? 128 : 32)

/* ---- write_dns_nameenc: one host name carrying a prefix of the payload ----------------------------------------- */
void h_nameenc(void)
{
	static char payload[4096];
	size_t buflen = nondet_size_t();
	int datalen = nondet_int();
	char downenc = (char)nondet_int();
	__CPROVER_assume(buflen >= 256 && buflen <= 1024);          /* write_dns: cnamebuf[1024]; the MX/SRV loop keeps at least 256 bytes (group wd_list) */
	__CPROVER_assume(datalen >= 0 && datalen <= 4096);
	char *buf = malloc(buflen);                                  /* EXACTLY the space the caller offers */
	g_str_base = 0; g_str_len = 0; g_enc_calls = g_dot_calls = 0;
	size_t r = write_dns_nameenc(buf, buflen, payload, datalen, downenc);
	size_t n = g_str_len;                                        /* length after dotting */
	size_t L = n + (buf[n - 1] == '.' ? 0 : 1) + 2;              /* + separating dot (unless one is there) + pseudo-domain */
	__CPROVER_assert(g_str_base == buf && n == 1 + g_enc_r + (1 + g_enc_r) / 57, "the text is dotted as a whole, codec letter included");
	/* C09: letter and codec agree, the codec gets the payload and the room a 255-byte name leaves */
	__CPROVER_assert(g_enc_calls == 1 && g_dot_calls == 1 && g_enc_dst == buf + 1 && g_enc_src == (const void *)payload && g_enc_srclen == (size_t)datalen, "the payload is encoded once, behind the codec letter");
	__CPROVER_assert(buf[0] == LETTER_NAME(downenc) && g_enc_codec == CODEC_OF(downenc), "the codec letter h/i/j/k announces the codec actually used (Base32/Base64/Base64u/Base128 for T/S/U/V)");
	__CPROVER_assert(r == g_enc_k, "the result is the number of payload bytes the name carries (what the encoder consumed)");
	__CPROVER_assert(datalen == 0 || r >= 1, "a non-empty payload always makes progress");
	/* C10: the name is legal */
	__CPROVER_assert(L <= 253 && L < buflen && buf[L] == 0, "the name is NUL-terminated inside the buffer and at most 253 characters (255 on the wire)");
	__CPROVER_assert(L >= 4 && buf[L - 3] == '.' && buf[L - 2] >= 'a' && buf[L - 2] <= 'z' && buf[L - 1] >= 'a' && buf[L - 1] <= 'z', "it ends with a separating dot and the two-letter pseudo-domain");
	__CPROVER_assert(g_enc_cap == 245, "the codec is offered 245 characters: 255 - letter - pseudo-domain - safety - one dot per 57");
	VERIF_REACH();
}

/* ---- write_dns: which builder is fed with what, per record type and downstream codec (loop-free types) ----------- */
#ifndef WD_BUF
#define WD_BUF (64 * 1024)
#define WD_TXT (64 * 1024)
#endif
#define LETTER_TXT(d) ((d) == 'S' ? 's' : (d) == 'U' ? 'u' : (d) == 'V' ? 'v' : (d) == 'R' ? 'r' : 't')
void h_write_dns(void)
{
	static char payload[4096];
	int datalen = nondet_int();
	char downenc = (char)nondet_int();
	__CPROVER_assume(datalen >= 0 && datalen <= 4096);            /* callers: pkt[4096], cached answers of at most 4096 bytes, short literals */
	__CPROVER_havoc_object(&g_q);
#ifdef H_TYPE
	g_q.type = H_TYPE;                                           /* one obligation group per record type (literal: the other branches fold away) */
#else
	__CPROVER_assume(g_q.type != T_MX && g_q.type != T_SRV && g_q.type != T_CNAME && g_q.type != T_A && g_q.type != T_TXT);     /* every other type */
#endif
	g_payload = payload; g_str_base = 0; g_str_len = 0; g_enc_calls = g_dot_calls = g_de_calls = g_sendto = g_cpy_calls = 0;
	g_de_ret = nondet_int();
	write_dns(8, &g_q, payload, datalen, downenc);
	__CPROVER_assert(g_de_calls == 1 && g_de_q == &g_q && g_de_qr == QR_ANSWER && g_de_buflen == WD_BUF, "one answer message is built for the query being answered");
	if (g_q.type == T_CNAME || g_q.type == T_A) {
		__CPROVER_assert(g_enc_calls == 1 && g_dot_calls == 1 && g_de_data_is_name && g_de_datalen == 1024, "CNAME/A: the answer is one host name built by write_dns_nameenc");
		__CPROVER_assert(g_de_first == LETTER_NAME(downenc) && g_enc_codec == CODEC_OF(downenc) && g_enc_src == (const void *)payload && g_enc_srclen == (size_t)datalen, "CNAME/A: codec letter and codec agree, the whole payload is offered");
	} else if (g_q.type == T_TXT) {
		__CPROVER_assert(g_de_first == LETTER_TXT(downenc) && g_dot_calls == 0, "TXT: the first character t/s/u/v/r announces the downstream codec, no dots are inserted");
		if (downenc == 'R') {
			__CPROVER_assert(g_enc_calls == 0 && g_cpy_calls == 1 && g_cpy_src == (const void *)payload && g_cpy_n == (size_t)datalen && g_de_datalen == (size_t)datalen + 1, "TXT raw: the payload is copied as is behind the letter, length exact");
		} else {
			__CPROVER_assert(g_enc_calls == 1 && g_enc_codec == CODEC_OF(downenc) && g_enc_src == (const void *)payload && g_enc_srclen == (size_t)datalen && g_enc_cap == WD_TXT - 1, "TXT: the codec named by the letter encodes the whole payload");
			__CPROVER_assert(g_de_data_is_name && g_de_datalen == g_enc_r + 1 && g_enc_k == (size_t)datalen, "TXT: letter + complete text are handed to the message builder (nothing cut: the text of 4096 bytes fits)");
		}
	} else {
		__CPROVER_assert(g_enc_calls == 0 && g_de_data_is_payload && g_de_datalen == (size_t)datalen, "NULL/PRIVATE and anything else: the payload travels as is");
	}
	__CPROVER_assert(g_sendto == (g_de_ret >= 1) && (!g_sendto || g_sent_ok), "exactly the built message is sent once to the asker; nothing when it could not be built");
	VERIF_REACH();
}
