#!/usr/bin/env python3-vt
"""writes MANIFEST.json from manifest_src.py (kept valid at all times)"""
import json, sys
sys.path.insert(0, "/verif")
import manifest_src as M
json.dump(M.manifest(), open("/verif/MANIFEST.json", "w"), indent=1)
import jsonschema
jsonschema.validate(json.load(open("/verif/MANIFEST.json")), json.load(open("/root/.vp/MANIFEST.schema.json")))
print("MANIFEST ok:", [c["property_id"] for c in M.manifest()["checks"]])
